#!/bin/bash
# confirm_seeded.sh <PROP> <k> <test paths...> : verify a sub-agent change in its scratch worktree
P=$1; K=$2; shift 2; OUTBASE=${OUTBASE:-/tmp/out}
WT=/tmp/wt-$P; OUT=$OUTBASE-$P/$K
cd $WT || exit 3
git checkout -q -- . ; git clean -fdq -- moptipyapps examples tests >/dev/null 2>&1
export NUMBA_CACHE_DIR=$WT/.numba_cache PYTHONPATH=$WT MPLBACKEND=Agg
timeout 900 /venv/bin/python -W ignore $OUT/demo.py >/tmp/confirm-$P-$K-clean.log 2>&1; echo "demo on clean HEAD: rc=$?"
git apply $OUT/patch.diff || { echo PATCH-DOES-NOT-APPLY; exit 3; }
git diff --stat | tail -3
rm -rf $WT/.numba_cache
timeout 900 /venv/bin/python -W ignore $OUT/demo.py >/tmp/confirm-$P-$K-patched.log 2>&1; echo "demo with patch: rc=$? :: $(tail -2 /tmp/confirm-$P-$K-patched.log | tr '\n' ' ' | cut -c1-300)"
if [ $# -gt 0 ]; then
  timeout 2400 /venv/bin/python -m pytest -q -p no:cacheprovider "$@" 2>&1 | tail -1
fi
FILES=$(git diff --name-only | grep '\.py$' | grep -v '^tests/')
timeout 900 /venv/bin/python -m pytest -q -p no:cacheprovider --doctest-modules $FILES 2>&1 | tail -1
git checkout -q -- . ; git clean -fdq -- moptipyapps examples >/dev/null 2>&1; rm -rf $WT/.numba_cache
