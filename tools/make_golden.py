#!/venv/bin/python
"""Write simkit/engines/c12_golden.json: digests of the problem data that the
loaders of the (pinned, repaired) tree deliver for the bundled instances of the
C12 pools. Run through ./check's environment:  PYTHONPATH=/verif /venv/bin/python tools/make_golden.py"""
import json, os, sys
sys.path.insert(0, "/verif")
from simkit.engines import c12, c12_jobs as jobs
out = {}
for dom in ("bp", "tsp", "atsp", "ttp", "qap"):
    for inst_id in jobs.instances_for(dom):
        c12._INST_CACHE.pop(inst_id, None)
        d = c12._inst_data(inst_id)
        key = inst_id if dom != "atsp" else "tsp:" + inst_id.split(":", 1)[1]
        out[key] = d["data_digest"]
json.dump(out, open("/verif/simkit/engines/c12_golden.json", "w"), indent=0, sort_keys=True)
print(len(out), "instances pinned")
