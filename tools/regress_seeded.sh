#!/bin/bash
# regress_seeded.sh [ids...] : re-run the owning quick check on every kept seeded change,
# in a scratch worktree of /repo (VERIF_REPO), and print one line per change.
WT=${WT:-/tmp/wt-regress}
[ -d "$WT" ] || git -C /repo worktree add --detach "$WT" HEAD >/dev/null 2>&1
cd /verif
ids=("$@"); [ ${#ids[@]} -eq 0 ] && ids=($(ls seeded | sort -V))
for id in "${ids[@]}"; do
  prop=$(python3 -c "import json;print(json.load(open('/verif/seeded/$id/meta.json'))['property'])")
  want=$(python3 -c "import json;print(json.load(open('/verif/seeded/$id/meta.json'))['detected'])")
  git -C "$WT" checkout -q -- . ; git -C "$WT" clean -fdq -- moptipyapps examples >/dev/null 2>&1
  if ! git -C "$WT" apply "/verif/seeded/$id/patch.diff" 2>/dev/null; then echo "$id $prop PATCH-DOES-NOT-APPLY"; continue; fi
  out=$(VERIF_REPO="$WT" VERIF_SKIP_SELFTEST=1 VERIF_WORKERS=${VERIF_WORKERS:-8} timeout 1500 ./check "$prop" quick 2>&1); rc=$?
  clause=$(echo "$out" | grep -o "clause=[^ ]*" | head -1)
  echo "$id $prop expected=$want rc=$rc $clause"
done
git -C "$WT" checkout -q -- .
