#!/bin/bash
# eval_in_worktree.sh <PROP> <k> [check ids...] : apply /tmp/out-<PROP>/<k>/patch.diff in the scratch
# worktree /tmp/wt-<PROP> and run the quick tier of the named checks (default: the owning one)
# against that worktree (VERIF_REPO), so that several changes can be judged side by side
# without touching /repo. The worktree is reverted afterwards. Evidence files written by
# such runs describe a changed tree: restore them (git checkout -- evidence) afterwards.
P=$1; K=$2; shift 2; IDS=("$@"); [ ${#IDS[@]} -eq 0 ] && IDS=("$P")
OUTBASE=${OUTBASE:-/tmp/out}; WT=/tmp/wt-$P; OUT=$OUTBASE-$P/$K
git -C "$WT" checkout -q -- . ; git -C "$WT" clean -fdq -- moptipyapps examples >/dev/null 2>&1
git -C "$WT" apply "$OUT/patch.diff" || { echo "$P/$K PATCH-DOES-NOT-APPLY"; exit 3; }
cd /verif
for c in "${IDS[@]}"; do
  t0=$(date +%s)
  out=$(VERIF_REPO="$WT" VERIF_SKIP_SELFTEST=1 VERIF_WORKERS=${VERIF_WORKERS:-6} timeout 1500 ./check "$c" quick 2>&1); rc=$?
  echo "$P/$K check=$c rc=$rc $(( $(date +%s) - t0 ))s :: $(echo "$out" | grep '^VIOLATION\|^HARNESS' | head -2 | cut -c1-260)"
done
git -C "$WT" checkout -q -- . ; git -C "$WT" clean -fdq -- moptipyapps examples >/dev/null 2>&1
