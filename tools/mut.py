#!/usr/bin/env python3
"""Development tool: apply a textual mutant to /repo, run a check, revert.

usage: mut.py <CHECK_ID> <file relative to /repo> <old> <new> [tier]
The mutant is applied to the working tree of /repo and always reverted
(git checkout) afterwards. Never commits anything.
"""
import os, subprocess, sys, time
def main():
    cid, rel, old, new = sys.argv[1:5]
    tier = sys.argv[5] if len(sys.argv) > 5 else "quick"
    path = os.path.join("/repo", rel)
    src = open(path).read()
    if src.count(old) < 1:
        print("MUTANT-ERROR: pattern not found"); return 3
    open(path, "w").write(src.replace(old, new, 1))
    try:
        t0 = time.time()
        env = dict(os.environ, VERIF_SKIP_SELFTEST="1")
        p = subprocess.run(["/verif/check", cid, tier], capture_output=True, text=True, env=env)
        lines = [l for l in p.stdout.splitlines() if l.startswith(("VIOLATION", "HARNESS", "KNOWN"))]
        print(f"rc={p.returncode} {time.time()-t0:.0f}s :: " + (" || ".join(l[:260] for l in lines[:3]) or p.stdout[-300:] + p.stderr[-300:]))
        return p.returncode
    finally:
        subprocess.run(["git", "-C", "/repo", "checkout", "--", rel])
if __name__ == "__main__":
    sys.exit(main())
