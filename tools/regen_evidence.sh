#!/bin/bash
# Re-run every claimed quick check on the current /repo tree and validate the evidence files.
cd /verif || exit 2
st=$(git -C /repo status --porcelain); [ -n "$st" ] && { echo "REFUSING: /repo not clean"; exit 3; }
rc_all=0
for c in $(python3 -c "import json;print(' '.join(x['property_id'] for x in json.load(open('MANIFEST.json'))['checks']))"); do
  t0=$(date +%s); ./check $c quick > .work/tmp/regen-$c.log 2>&1; rc=$?
  echo "$c rc=$rc $(( $(date +%s) - t0 ))s :: $(grep -c '^VIOLATION' .work/tmp/regen-$c.log) violations, $(grep -c '^KNOWN-FINDING' .work/tmp/regen-$c.log) known, $(grep -c '^REACH-WARNING' .work/tmp/regen-$c.log) reach warnings"
  [ $rc -ne 0 ] && rc_all=1
done
python3-vt - <<'PY'
import json, jsonschema, glob
sch = json.load(open('/root/.vp/EVIDENCE.schema.json'))
man = json.load(open('/verif/MANIFEST.json'))
jsonschema.validate(man, json.load(open('/root/.vp/MANIFEST.schema.json')))
for c in man['checks']:
    e = json.load(open(c['evidence_file'])); jsonschema.validate(e, sch)
    cov = e['coverage']
    print(c['property_id'], 'evidence ok: evaluations', cov['evaluations'], 'distinct_nontrivial', cov['distinct_nontrivial'], 'selftest mismatches', len(cov['determinism_selftest']['mismatches']), 'violations', e['violations'])
PY
exit $rc_all
