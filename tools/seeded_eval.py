#!/usr/bin/env python3
"""Apply a seeded patch to /repo, run one or more checks, always revert.

usage: seeded_eval.py <patch.diff> <CHECK_ID>[,<CHECK_ID>...] [tier]
Prints one line per check: id rc seconds and the VIOLATION/HARNESS lines.
"""
import os, subprocess, sys, time
def main():
    patch, ids = sys.argv[1], sys.argv[2].split(",")
    tier = sys.argv[3] if len(sys.argv) > 3 else "quick"
    st = subprocess.run(["git", "-C", "/repo", "status", "--porcelain"], capture_output=True, text=True).stdout.strip()
    if st:
        print("REFUSING: /repo is not clean:\n" + st); return 3
    r = subprocess.run(["git", "-C", "/repo", "apply", patch], capture_output=True, text=True)
    if r.returncode != 0:
        print("PATCH-ERROR", r.stderr[-500:]); return 3
    out = {}
    try:
        for cid in ids:
            t0 = time.time()
            env = dict(os.environ, VERIF_SKIP_SELFTEST="1")
            p = subprocess.run(["/verif/check", cid, tier], capture_output=True, text=True, env=env)
            lines = [l for l in p.stdout.splitlines() if l.startswith(("VIOLATION", "HARNESS", "KNOWN"))]
            print(f"{cid} rc={p.returncode} {time.time()-t0:.0f}s :: " + (" || ".join(l[:300] for l in lines[:3]) or p.stdout[-200:]))
            out[cid] = p.returncode
    finally:
        subprocess.run(["git", "-C", "/repo", "checkout", "--", "."])
        subprocess.run(["git", "-C", "/repo", "clean", "-fdq", "--", "moptipyapps", "examples"])
    return 0
if __name__ == "__main__":
    sys.exit(main())
