#!/usr/bin/env python3
"""keep_seeded.py <PROP> <k> <id> <caught:yes|no|n/a> "<needs>" "<what I ran / result>" """
import json, os, shutil, sys
prop, k, sid, caught, needs, ran = sys.argv[1:7]
src = f"{os.environ.get('OUTBASE', '/tmp/out')}-{prop}/{k}"
dst = f"/verif/seeded/{sid}"
os.makedirs(dst, exist_ok=True)
for f in ("patch.diff", "demo.py", "notes.md"):
    if os.path.exists(os.path.join(src, f)):
        shutil.copy(os.path.join(src, f), os.path.join(dst, f))
meta = {"id": sid, "property": prop, "origin": "independent sub-agent given only the property text and a scratch worktree",
        "needs_to_manifest": needs, "confirmed": "demo passes on clean HEAD and fails with the patch in the scratch worktree; relevant tests and doctests of edited files pass with the patch (tools/confirm_seeded.sh)",
        "checks_run": ran, "detected": caught}
json.dump(meta, open(os.path.join(dst, "meta.json"), "w"), indent=1)
print("kept", dst)
