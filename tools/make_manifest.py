#!/usr/bin/env python3
"""Regenerate /verif/MANIFEST.json from the table below (development helper)."""
import json, os
V = "/verif"
CLAIMED = {
 "C01": ("4.8", "seeded search over the same shared-encoder histories as C14 (one encoder object, 1-2 destination packings, scribbled scratch and destination state between decodings, instance sizes and item counts at the int8/int16/int32 storage boundaries, 1x1 bins, items as large as the bin, forced rotations, shipped instances); every decoded packing is judged by an independent feasibility predicate and the storage type by the documented requirement. The universal quantifier over inputs is sampled; what the simulation contributes is the history and hostile leftover state. A clean batch is evidence, not proof.",
         "trusted: feasibility predicate in simkit/oracles/packing.py, numba, numpy, moptipy",
         "deterministic simulation with fault injection (shared-object operation histories + state scribbling vs. independent feasibility oracle)"),
 "C02": ("4.9", "seeded search over evaluation histories: one object per objective class is shared by a history of evaluations of several feasible packings (decoder-reachable and not: relocated/rotated items, sparse last bins, unsorted rows; bins from 1x1 over sides around 46341/65536 with items nearly as large - areas around 2**31 and 2**32 - up to areas of 1e17) held in reused buffers, with the objectives' scratch arrays scribbled between calls; every value is compared with an independent implementation of the documented definition, the declared bounds, the bin-count conversion, earlier values of the same pair and the dominance clause across packings. The universal quantifier over packings is sampled. A clean batch is evidence, not proof.",
         "trusted: the documented definitions re-implemented in simkit/oracles/packing.py (cross-checked on the unchanged tree), numba, numpy",
         "deterministic simulation with fault injection (shared-object evaluation histories, buffer reuse, scratch-state faults vs. reference definitions)"),
 "C04": ("4.6", "seeded search over histories of store/damage/recover cycles that share one instance and one PackingSpace object: complete log files (real FileLogger/LogParser), to_str text and live arrays are damaged by 0-4 faults (digit flips, dropped/duplicated fields and rows, torn writes, single-field edits, one-dimension-matching sizes, relabelled ids, bin gaps, wrong n_bins/dtype/shape) and validate/from_str/from_log must accept exactly what an independent feasibility predicate accepts (also right after a rejected predecessor), must not turn a well-formed integer list of the wrong length into a packing, and must return the stored packing when undamaged or benignly edited. A clean batch is evidence, not proof.",
         "trusted: the feasibility predicate in simkit/oracles/packing.py, numpy text parsing, moptipy's log reader/writer",
         "deterministic simulation with fault injection (storage corruption / torn writes vs. independent feasibility oracle)"),
 "C06": ("4.2", "seeded search over move histories: the real EA/FEA loops run against a simulated Process (a full moptipy Process subclass) that scripts the random stream through the numpy Generator interface (index pairs biased to i=0, j=n-2, i=j, full reversal, adjacent, repeated), the start tour, a possibly already known best solution and the cancellation instant; one algorithm object serves several runs; plus runs under moptipy's real process - plain and through its for_fes/from_starting_point sub-process wrappers, short and longer than 16 384 moves - observed through a proxy; every hand-over is re-computed with exact integers, EA monotonicity is checked, and the FEA table comes from a simulator-owned guard-banded allocator so that any address outside [0, upper bound] is seen. A clean batch is evidence, not proof.",
         "trusted: exact integer tour-length oracle, numba/numpy/moptipy; guard band catches out-of-range addresses up to 4x the largest distance + 1024",
         "deterministic simulation with fault injection (scripted process: random stream, cancellation, allocator seam, baton-passed caller threads on a seeded schedule; reference model)"),
 "C10": ("4.3", "seeded search over fault plans: run_ode/multi_run_ode integrate linear plants (stable to exponentially diverging) under controllers and plants that return NaN, +-inf, 1e50, -1e11 or exactly +-1e10 always / after t* / in windows narrower or wider than the output grid / at t=0 only / when a state leaves a box, plus bundled Stuart-Landau and Lorenz systems; every returned array is checked for the row invariants, control = controller(state,t) bit-equality, J/T/differentials against independent formulas (also on non-uniform sub-grids), the analytic solution for fault-free linear loops, and bounded liveness as a call budget. A clean batch is evidence, not proof.",
         "trusted: scipy RK45, math.fsum reference formulas, own matrix exponential; call budget calibrated x50 on the unchanged tree; stiff-but-legal closed loops are excluded from generation and never counted as non-termination",
         "deterministic simulation with fault injection (failing peers as pure functions of simulated time/state; bounded liveness; invariants over the recorded trajectory)"),
 "C11": ("4.4", "seeded search over operation histories on one stateful objective object (evaluate with well-behaved, destabilising and NaN vectors, initialize, set_model with Python/njit/diverging/NaN-after-t model equations, set_raw, get_differentials, ModelObjective cycles, models that raise mid-simulation, the real SurrogateOptimizer run on the shared objective with a cancellation injected while it is in model mode, contract-violating calls); after every operation the value is compared bit-for-bit with a fresh objective on a freshly built instance and with the documented aggregate of independently recomputed per-case J, and the collected training data with a ledger that only raw-mode evaluations may extend. A clean batch is evidence, not proof.",
         "trusted: run_ode/j_from_ode (decided by C10), numpy mean/log1p/expm1, numba; model equations and the synthetic system are simulator stubs",
         "deterministic simulation with fault injection (interleaved operation histories on a shared stateful object vs. stateless reference model + ledger)"),
 "C17": ("4.7", "seeded search over generation histories: one InstanceDecoder and one or two Hardness/ErrorsAndHardness objects are driven through decode(x) calls (uniform, clipped-to-the-box and repeated vectors, fresh or reused receivers, 0-8 slack pairs) and objective evaluations on decoded instances and the template, repeated after other instances of the same name; every decoded instance is checked for name, bin size, item count, the area window, lower bound = template bin need and packability by a position-tracking witness layout judged by the independent packing predicate; equal vectors must give equal instances and repeated evaluations equal values, also in a fresh interpreter under another hash seed. A clean batch is evidence, not proof.",
         "trusted: packing feasibility predicate, moptipy Execution/RLS/rand_seeds_from_str; a missing witness is recorded as undecided, never as a violation",
         "deterministic simulation with fault injection (seeded randomness + nested seeded runs under operation histories; replay equality across histories and interpreters; witness construction)"),
 "C12": ("4.5", "seeded search over experiment schedules: a results directory is visited by 1-3 boots, each a fresh interpreter with its own hash seed, simulated clock (fixed, random tick, forward jumps), seeded stand-in for the runner's unseeded shuffles, warm-up settings and growing n_runs lists; a fake peer claims and later completes log files; directory evaluation runs under permuted listing orders; crash points kill a boot at the n-th clock read or after n log bytes and the next boot restarts. Every completed log is compared with a history-free single run in its own interpreter, its solution is checked by independent feasibility predicates and re-evaluated by independent objective implementations (7 packing objectives, tour length on symmetric and asymmetric instances, QAP sum, TTP error count and travel length incl. every archived solution of the multi-objective example; fresh objective in a fresh interpreter for instance generation and controller synthesis; surrogate-optimizer runs without log files against a fresh-interpreter reference), and bin-packing logs are parsed back (Packing.from_log, PackingResult). A clean batch is evidence, not proof.",
         "trusted: moptipy's claim/skip semantics and log writer, instance loaders, the independent oracles in simkit/oracles; a run in flight at a crash may be lost (moptipy semantics)",
         "deterministic simulation with fault injection (multi-process boots over durable files: schedule, clock, peers, crash/restart; history-free reference runs)"),
 "C14": ("4.1", "seeded search over histories of decodings that share one encoder object and one or two destination packings, with scribbled scratch/destination state injected between operations; every decode is compared row by row with an executable reference model of the documented bottom-left rule. A clean batch is evidence, not proof.",
         "trusted: the reference model in simkit/oracles/packing.py (derived from the module docstrings), numba, numpy, moptipy",
         "deterministic simulation with fault injection (shared-object operation histories + state scribbling vs. reference model)"),
}
EXTRA = {}
try:
    exec(open(os.path.join(V, "tools", "manifest_more.py")).read())
except FileNotFoundError:
    pass
CLAIMED.update(EXTRA)
NA = json.load(open(os.path.join(V, "tools", "not_applicable.json")))
ADDED = {
 "C01": " The constructor is also offered items that fit in no orientation: what it accepts is decoded and judged. Violations found with scribbled *private* scratch arrays count only if the history without those scribbles still shows them.",
 "C02": " Violations found with scribbled private scratch arrays count only if the history without those scribbles still shows them.",
 "C14": " Violations found with scribbled private scratch arrays count only if the history without those scribbles still shows them. Caller threads: two threads decode at the same time (one shared encoder object of encoding 1, or an object each), released one at a time at line events of the repository's Python code by a seeded schedule (core.Preempt); every result must be the documented one.",
 "C04": " For well-formed stored integer lists the returned matrix must equal the stored numbers, sign included. Caller threads: two threads validate live packings at the same time (one shared PackingSpace, or an instance and a space each) under the line-event scheduler; accepted iff feasible.",
 "C06": " The runs of a scenario may be simultaneous solve() calls on one algorithm object: real threads released one at a time at should_terminate() polls by a schedule in the scenario document. Caller-side faults: the matrix buffer handed to the Instance constructor is re-used afterwards; arrays numpy derives from an instance are offered to the algorithms (refusal is fine).",
 "C10": " Starting states also arrive as int64/float32 arrays; System objects are built and System.describe_system must write, per starting state, exactly the simulations judged before (results table on disk). Caller threads: two threads simulate at the same time under the line-event scheduler; rows, J, T and differentials must be what each simulation gives alone.",
 "C11": " Histories also contain read-only API calls (log_parameters_to, str, bounds); inside surrogate runs every evaluation is observed together with the objective's mode (an evaluation booked by the real process must be a real-system evaluation, and the recorded data must be what those evaluations record on a fresh objective). The private collection lists are used only while calibrated against get_differentials(). Faults also include an allocation failing inside get_differentials. Caller threads: two threads, each with an objective object of its own, evaluate at the same time under the line-event scheduler; each value and each recorded data set must be what that thread gets alone.",
 "C12": " Instance pools are stratified by structure class; controller-synthesis results are re-evaluated from run_ode rows alone; parsed bin bounds must be true bounds; digests of the bundled instances' data as loaded on the pinned tree are on record (c12_golden.json).",
 "C17": " Templates in which every item needs its own bin are admitted or refused by the code's own get_x_dim; objective objects with another configuration are used in turns; decodes that fail half-way (short vector, NaN) happen between valid ones; the number of slack pairs varies per decode; the seed derivation of the hardness objective fails once. Caller threads: two threads decode at the same time with one shared decoder (or one each) under the line-event scheduler.",
}
checks = []
for pid in sorted(CLAIMED):
    ref, text, note, tech = CLAIMED[pid]
    text = text + ADDED.get(pid, "")
    checks.append({
        "property_id": pid,
        "quick_cmd": f"/verif/check {pid} quick",
        "thorough_cmd": f"/verif/check {pid} thorough",
        "evidence_file": f"/verif/evidence/{pid}.json",
        "replay_cmd_template": "/verif/check replay {path}",
        "engine": "simkit",
        "level_claimed": {"category": "exploration", "text": text, "design_ref": f"DESIGN.md {ref}"},
        "level_note": note,
        "technique": tech})
man = {
 "version": 1,
 "setup_cmd": "/verif/check setup",
 "hooks": {
  "guard": "THOMASWEISE_MOPTIPYAPPS_VERIF",
  "enable": "no hooks were added to /repo: every seam is reached by replacing module attributes of dependencies (moptipy, os, numpy allocator reference) inside the check process, by passing simulator-owned objects through public parameters, or through name-mangled attributes; the guard name is reserved and unused",
  "baseline_off_cmd": "cd /repo && /venv/bin/python -m pytest -ra -q -p no:cacheprovider --timeout=900 --continue-on-collection-errors",
  "source_commits": [],
  "add_only": True},
 "engines": [{"name": "simkit", "path": "/verif/simkit", "serves_properties": sorted(CLAIMED),
   "kind_free_text": "deterministic simulation with fault injection: seeded scenario documents (operation + fault lists) executed against the real repo code under simulator-owned seams, reference models as oracles, seeded search, shrinking, replay files"}],
 "checks": checks,
 "not_applicable": [x for x in NA if x["property_id"] not in CLAIMED],
 "notes": "fix: commits in /repo are listed in /verif/known_findings.json (status fixed). Exit codes: 0 held, 1 VIOLATION, 2 harness error.",
}
json.dump(man, open(os.path.join(V, "MANIFEST.json"), "w"), indent=1)
print("claimed", sorted(CLAIMED), "n/a", [x["property_id"] for x in man["not_applicable"]])
