#!/venv/bin/python
"""Entry script of the simulation checks.

  simkit_main.py run <ID> <tier>
  simkit_main.py replay <file>
  simkit_main.py single <ID> <scenario.json>          (internal)
  simkit_main.py selftest-child <ID> <tier> <seed> <spec>   (internal)
  simkit_main.py boot ...                             (internal, C12)
"""
import os
import sys

sys.path.insert(0, os.path.dirname(os.path.abspath(__file__)))


def main(argv):
    if len(argv) < 2:
        print(__doc__)
        return 2
    cmd = argv[1]
    from simkit.core import die_with_parent
    die_with_parent()
    if cmd == "run":
        from simkit.driver import run_check
        return run_check(argv[2].upper(), argv[3])
    if cmd == "replay":
        from simkit.driver import replay
        return replay(argv[2])
    if cmd == "single":
        from simkit.driver import run_single
        return run_single(argv[2].upper(), argv[3])
    if cmd == "selftest-child":
        from simkit.driver import child_selftest
        return child_selftest(argv[2].upper(), argv[3], int(argv[4]), argv[5])
    if cmd == "boot":
        from simkit.engines import c12
        return c12.boot_main(argv[2:])
    if cmd == "ref":
        from simkit.engines import c12
        return c12.ref_main(argv[2:])
    print(__doc__)
    return 2


if __name__ == "__main__":
    sys.exit(main(sys.argv))
