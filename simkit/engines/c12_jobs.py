"""C12 job registry: how the bundled experiment setups are built, named and read back.

Used by the boot processes (real runs), the reference process (history-free runs)
and the orchestrator (expectations). A job is (setup_id, inst_id, seed, budget).
"""
from __future__ import annotations

import importlib.util
import os
import sys

REPO = os.environ.get("VERIF_REPO", "/repo")
BP_OBJECTIVES = {
    "binCount": ("bin_count", "BinCount"),
    "binCountAndLastEmpty": ("bin_count_and_last_empty",
                             "BinCountAndLastEmpty"),
    "binCountAndEmpty": ("bin_count_and_empty", "BinCountAndEmpty"),
    "binCountAndLastSmall": ("bin_count_and_last_small",
                             "BinCountAndLastSmall"),
    "binCountAndSmall": ("bin_count_and_small", "BinCountAndSmall"),
    "binCountAndLastSkyline": ("bin_count_and_last_skyline",
                               "BinCountAndLastSkyline"),
    "binCountAndLowestSkyline": ("bin_count_and_lowest_skyline",
                                 "BinCountAndLowestSkyline"),
}
# Instance pools are lists of *classes* (storage type, symmetry, structure);
# a scenario draws its instances from different classes so that every class
# is met within a few dozen scenarios.
BP_CLASSES = [["asqas03", "asqas08", "asqas20"],
              ["a04", "a08", "a42", "a02", "a27"],
              ["beng01", "beng02", "beng06"],
              ["cl01_020_01", "cl01_040_03", "cl03_020_02"],
              ["cl02_020_03", "cl04_020_01", "cl06_020_05"],
              ["cl05_020_02", "cl07_020_04", "cl08_020_01"],
              ["cl09_020_01", "cl10_020_03", "cl09_040_02"]]
TSP_CLASSES = [["burma14", "cn11", "gr17", "gr21"],           # int16, tiny
               ["ulysses16", "ulysses22"],                    # int32, geo
               ["bayg29", "fri26", "gr24", "dantzig42"],      # int16, medium
               ["att48", "berlin52", "hk48", "gr48"],         # int32, medium
               ["gr96", "gr137"]]                  # geographic, larger
ATSP_CLASSES = [["br17", "ftv33", "ftv35"], ["p43", "ry48p", "ft53"],
                ["gr17", "burma14", "bays29"]]
# from ten teams upwards the earliest-slot decoding of short runs leaves days
# without a game (byes), which exercises that part of the error count
TTP_CLASSES = [["circ4", "con4", "gal4", "nl4", "sup4"],
               ["circ6", "nl6", "circ8", "nl8"],
               ["circ10", "circ12", "nl10", "con12", "circ16"]]
QAP_CLASSES = [["chr12a", "had12", "nug12", "tai12a", "scr12", "rou12"],
               ["lipa20a", "lipa20b", "lipa30a"],    # D symmetric, F not
               ["tai12b", "tai15b", "tai20b"],       # D asymmetric, > int32
               ["bur26a", "bur26d", "bur26g"],       # neither, diagonals set
               ["esc16f", "els19", "esc32e", "chr18b", "esc16a"]]  # extremes


def _flat(classes: list) -> list:
    return [n for c in classes for n in c]


BP_INSTANCES = _flat(BP_CLASSES)
TSP_INSTANCES = _flat(TSP_CLASSES)
ATSP_INSTANCES = _flat(ATSP_CLASSES)
TTP_INSTANCES = _flat(TTP_CLASSES)
QAP_INSTANCES = _flat(QAP_CLASSES)
# as in instgen/experiment.py every template comes with both slack variants
INSTGEN_INSTANCES = [("beng01", 0.25), ("beng01", 0.125),
                     ("cl01_020_01", 0.25), ("cl01_020_01", 0.125),
                     ("cl02_020_01", 0.25), ("beng02", 0.125),
                     # lower bound above the area bound
                     ("cl05_020_01", 0.25), ("cl09_020_02", 0.25)]
DC_INSTANCES = [("stuart_landau", "linear"), ("lorenz", "linear"),
                ("stuart_landau", "quadratic"),
                ("three_coupled_oscillators", "ann0")]
DCS_INSTANCES = ["stuart_landau", "lorenz", "three_coupled_oscillators"]
INSTGEN_INNER_FES = 40
INSTGEN_INNER_RUNS = 1
_EXAMPLES: dict = {}


def _example(name: str):
    if name not in _EXAMPLES:
        path = os.path.join(REPO, "examples", name + ".py")
        spec = importlib.util.spec_from_file_location(
            "simkit_example_" + name, path)
        mod = importlib.util.module_from_spec(spec)
        sys.modules[spec.name] = mod
        spec.loader.exec_module(mod)
        _EXAMPLES[name] = mod
    return _EXAMPLES[name]


def domain_of(setup_id: str) -> str:
    return setup_id.split(":")[0]


def make_instance(inst_id: str):
    dom, _, rest = inst_id.partition(":")
    if dom == "bp":
        from moptipyapps.binpacking2d.instance import Instance
        return Instance.from_resource(rest)
    if dom in ("tsp", "atsp"):
        from moptipyapps.tsp.instance import Instance
        return Instance.from_resource(rest)
    if dom in ("ttp", "ttpmo"):
        from moptipyapps.ttp.instance import Instance
        return Instance.from_resource(rest)
    if dom == "qap":
        from moptipyapps.qap.instance import Instance
        return Instance.from_resource(rest)
    if dom == "instgen":
        from moptipyapps.binpacking2d.instgen.problem import Problem
        name, slack = rest.split(":")
        return Problem(name, float(slack))
    if dom == "dc":
        sysname, ctrl = rest.split(":")
        return _dc_instance(sysname, ctrl)
    if dom == "dcs":
        return _dcs_instance(rest)
    raise ValueError(inst_id)


_DC_CACHE: dict = {}


def _dc_system(sysname: str):
    import numpy as np
    from moptipyapps.dynamic_control.system import System
    key = ("sys", sysname)
    if key not in _DC_CACHE:
        smod = importlib.import_module(
            f"moptipyapps.dynamic_control.systems.{sysname}")
        base = getattr(smod, {
            "stuart_landau": "STUART_LANDAU_4", "lorenz": "LORENZ_4",
            "three_coupled_oscillators": "THREE_COUPLED_OSCILLATORS"}[sysname])
        # same equations and starting states, shorter horizons: one FE ~30 ms
        system = System(base.name, base.state_dims, base.control_dims,
                        base.state_dim_mod, base.state_dims_in_j, base.gamma,
                        np.array(base.test_starting_states),
                        np.array(base.training_starting_states),
                        100, 5.0, 60, 4.0, (0,))
        system.equations = base.equations
        _DC_CACHE[key] = system
    return _DC_CACHE[key]


def _dc_instance(sysname: str, ctrl: str):
    from moptipyapps.dynamic_control.instance import Instance
    system = _dc_system(sysname)
    if ctrl == "ann0":     # the smallest generated network (any dimension)
        from moptipyapps.dynamic_control.controllers.ann import anns
        return Instance(system, anns(system)[0])
    cmod = importlib.import_module(
        f"moptipyapps.dynamic_control.controllers.{ctrl}")
    return Instance(system, getattr(cmod, ctrl)(system))


def _dcs_instance(sysname: str):
    """A SystemModel as in experiment_surrogate.make_instances (ANN controller
    and ANN model blueprint), on the shortened system."""
    from moptipyapps.dynamic_control.controllers.ann import make_ann
    from moptipyapps.dynamic_control.system_model import SystemModel
    import numpy as np
    from moptipyapps.dynamic_control.system import System
    key = ("dcs", sysname)
    if key not in _DC_CACHE:
        base = _dc_system(sysname)
        # an even shorter horizon: learned ANN models can be stiff, and the
        # cost of a stiff simulation grows with the simulated time
        system = System(base.name, base.state_dims, base.control_dims,
                        base.state_dim_mod, base.state_dims_in_j, base.gamma,
                        np.array(base.test_starting_states),
                        np.array(base.training_starting_states)[:2],
                        30, 1.0, 20, 1.0, (0,))
        system.equations = base.equations
        sd, cd = system.state_dims, system.control_dims
        _DC_CACHE[key] = (system, make_ann(sd, cd, [sd, sd]),
                          make_ann(sd + cd, sd, [sd, sd, sd]))
    system, ctrl, model = _DC_CACHE[key]
    return SystemModel(system, ctrl, model)


def make_setup(setup_id: str, budget: int):
    """Return callable(instance) -> Execution with the budget forced."""
    parts = setup_id.split(":")
    dom = parts[0]

    def finish(exe):
        return exe.set_max_fes(int(budget), True)

    if dom == "bp":
        import moptipyapps.binpacking2d.experiment as ex
        algo, obj, enc = parts[1], parts[2], parts[3]
        omod, ocls = BP_OBJECTIVES[obj]
        objective = getattr(importlib.import_module(
            f"moptipyapps.binpacking2d.objectives.{omod}"), ocls)
        encoding = getattr(importlib.import_module(
            f"moptipyapps.binpacking2d.encodings.ibl_encoding_{enc}"),
            f"ImprovedBottomLeftEncoding{enc}")
        builder = ex.rls if algo == "rls" else ex.fea
        return lambda inst: finish(builder(inst, encoding, objective))
    if dom == "tsp":
        from moptipy.api.execution import Execution
        from moptipy.spaces.permutations import Permutations
        from moptipyapps.tsp.ea1p1_revn import TSPEA1p1revn
        from moptipyapps.tsp.fea1p1_revn import TSPFEA1p1revn
        from moptipyapps.tsp.tour_length import TourLength
        if parts[1] == "ea":
            cons = TSPEA1p1revn
        elif parts[1] == "feah":    # the FEA that also logs its H table
            def cons(inst):
                return TSPFEA1p1revn(inst, do_log_h=True)
        else:
            cons = TSPFEA1p1revn
        # wiring of examples/tsp_special_algorithms.py (+ improvement log)
        return lambda inst: finish(
            Execution().set_solution_space(
                Permutations.standard(inst.n_cities))
            .set_algorithm(cons(inst)).set_objective(TourLength(inst))
            .set_log_improvements(True))
    if dom == "atsp":
        # wiring of examples/tsp_rls.py: generic RLS with the tour-length
        # objective, applicable to symmetric and asymmetric instances
        from moptipy.algorithms.so.rls import RLS
        from moptipy.api.execution import Execution
        from moptipy.operators.permutations.op0_shuffle import Op0Shuffle
        from moptipy.operators.permutations.op1_swapn import Op1SwapN
        from moptipy.spaces.permutations import Permutations
        from moptipyapps.tsp.tour_length import TourLength

        def build(inst):
            space = Permutations.standard(inst.n_cities)
            return finish(Execution().set_solution_space(space)
                          .set_algorithm(RLS(Op0Shuffle(space), Op1SwapN()))
                          .set_objective(TourLength(inst))
                          .set_log_improvements(True))
        return build
    if dom == "ttp":
        mod = _example("ttp_example_experiment_rls_rs")
        fn = mod.rls if parts[1] == "rls" else mod.rs
        return lambda inst: finish(fn(inst))
    if dom == "ttpmo":
        mod = _example("ttp_example_experiment_mo")
        fn = mod.rls if parts[1] == "rls" else mod.mo_nsga2
        return lambda inst: finish(fn(inst))
    if dom == "qap":
        mod = _example("qap_example_experiment_rls_rs")
        fn = mod.rls if parts[1] == "rls" else mod.rs
        return lambda inst: finish(fn(inst))
    if dom == "instgen":
        import moptipyapps.binpacking2d.instgen.experiment as ige
        ige.INNER_MAX_FES = INSTGEN_INNER_FES      # module constants are read
        ige.INNER_RUNS = INSTGEN_INNER_RUNS        # when the setup is built
        return lambda problem: finish(ige.cmaes(problem))
    if dom == "dc":
        import moptipyapps.dynamic_control.experiment_raw as er
        return lambda inst: finish(er.cmaes(inst))
    if dom == "dcs":
        import moptipyapps.dynamic_control.experiment_surrogate as es
        if parts[1] == "raw":
            return lambda inst: finish(es.cmaes_raw(inst))
        w, t, m = int(parts[2]), int(parts[3]), int(parts[4])
        return lambda inst: finish(es.cmaes_surrogate(inst, w, t, m, False))
    raise ValueError(setup_id)


def all_setups(domains=None) -> list:
    out = []
    for algo in ("rls", "fea"):
        for obj in BP_OBJECTIVES:
            for enc in ("1", "2"):
                out.append(f"bp:{algo}:{obj}:{enc}")
    out += ["tsp:ea", "tsp:fea", "ttp:rls", "ttp:rs", "qap:rls", "qap:rs",
            "instgen:cmaes", "dc:cmaes"]
    if domains:
        out = [s for s in out if domain_of(s) in domains]
    return out


def instance_classes(dom: str) -> list:
    cl = {"bp": BP_CLASSES, "tsp": TSP_CLASSES, "atsp": ATSP_CLASSES,
          "ttp": TTP_CLASSES, "ttpmo": TTP_CLASSES,
          "qap": QAP_CLASSES}.get(dom)
    if cl is None:
        return [[i] for i in instances_for(dom)]
    return [[f"{dom}:{n}" for n in c] for c in cl]


def instances_for(dom: str) -> list:
    if dom == "bp":
        return [f"bp:{n}" for n in BP_INSTANCES]
    if dom == "tsp":
        return [f"tsp:{n}" for n in TSP_INSTANCES]
    if dom == "atsp":
        return [f"atsp:{n}" for n in ATSP_INSTANCES]
    if dom == "ttp":
        return [f"ttp:{n}" for n in TTP_INSTANCES]
    if dom == "ttpmo":
        return [f"ttpmo:{n}" for n in TTP_INSTANCES]
    if dom == "qap":
        return [f"qap:{n}" for n in QAP_INSTANCES]
    if dom == "instgen":
        return [f"instgen:{n}:{s}" for n, s in INSTGEN_INSTANCES]
    if dom == "dc":
        return [f"dc:{s}:{c}" for s, c in DC_INSTANCES]
    if dom == "dcs":
        return [f"dcs:{s}" for s in DCS_INSTANCES]
    raise ValueError(dom)


# ------------------------------------------------------------------ reading logs

def parse_log_text(text: str) -> dict:
    """Own minimal reader of moptipy's log format -> {section: [lines]}."""
    sections: dict = {}
    cur = None
    for raw in text.splitlines():
        line = raw.strip()
        if not line:
            continue
        if cur is None:
            if line.startswith("BEGIN_"):
                cur = line[6:]
                sections[cur] = []
            else:
                raise ValueError(f"unexpected line outside section: {line!r}")
        elif line == "END_" + cur:
            cur = None
        else:
            sections[cur].append(line)
    if cur is not None:
        raise ValueError(f"section {cur} not closed")
    return sections


def _kv(lines: list) -> dict:
    out = {}
    for line in lines:
        k, _, v = line.partition(": ")
        out[k] = v
    return out


def record_from_log_text(text: str) -> dict:
    """Canonical, time-free record of a completed run log."""
    sec = parse_log_text(text)
    if "STATE" not in sec or "SETUP" not in sec or "RESULT_Y" not in sec:
        raise ValueError(f"incomplete log: sections {sorted(sec)}")
    st = _kv(sec["STATE"])
    su = _kv(sec["SETUP"])
    progress = []
    if "PROGRESS" in sec:
        head = sec["PROGRESS"][0].split(";")
        fi, ei = head.index("f"), head.index("fes")
        for row in sec["PROGRESS"][1:]:
            c = row.split(";")
            progress.append([c[ei], c[fi]])
    errs = sorted(k for k in sec if k.startswith("ERROR"))
    archive = []
    k = 0
    while f"ARCHIVE_{k}_Y" in sec:
        archive.append(["\n".join(sec.get(f"ARCHIVE_{k}_X", [])),
                        "\n".join(sec[f"ARCHIVE_{k}_Y"])])
        k += 1
    return {"best_f": st.get("bestF"), "total_fes": st.get("totalFEs"),
            "last_improvement_fe": st.get("lastImprovementFE"),
            "max_fes": su.get("p.maxFEs"), "seed": su.get("p.randSeed"),
            "algorithm": su.get("a.name"), "objective": su.get("f.name"),
            "f_lower": su.get("f.lowerBound"),
            "f_upper": su.get("f.upperBound"),
            "y": "\n".join(sec["RESULT_Y"]),
            "x": "\n".join(sec.get("RESULT_X", [])),
            "progress": progress, "error_sections": errs,
            "best_fs": st.get("bestFs"), "archive": archive,
            "archive_qualities": sec.get("ARCHIVE_QUALITIES", []),
            "f1_upper": su.get("f.f1.upperBound"),
            "weights": su.get("f.weights")}


def log_path(base: str, algo_name: str, inst_name: str, seed: int) -> str:
    from moptipy.utils.strings import sanitize_names
    fn = sanitize_names([algo_name, inst_name, hex(seed)])
    return os.path.join(base, algo_name, inst_name, fn + ".txt")
