"""C12 - experiment boots: run order, warm-ups, peers, clock, crash/restart, hash seed."""
from __future__ import annotations

import json
import os
import random
import shutil
import subprocess
import sys
import time

from simkit import core
from simkit.engines import c12_jobs as jobs

PROPERTY = "C12"
SIM_TIME_UNIT = "simulated nanoseconds of the runs' clock (sum over boots)"
STATE_MEASURE = ("distinct (job, tuple of jobs executed before it in the same "
                 "interpreter, boot index, after-restart?) tuples")
RULE = (
    "Scenario = one results directory and a list of boots; every boot is a fresh "
    "interpreter with its own PYTHONHASHSEED, a simulated clock (fixed / random "
    "tick / forward jumps of hours), a seeded stand-in for the runner's unseeded "
    "shuffles, and a list of actions: run_experiment over bundled setup builders "
    "(bin packing rls/fea x 7 objectives x 2 encodings, TSP EA/FEA, TTP and QAP "
    "example searches, instance generation, controller synthesis) with forced "
    "small FE budgets, growing n_runs lists, warm-up and pre-warm-up on or off; "
    "a fake peer claiming and later completing log files; evaluation of the "
    "directory with permuted listing order; and crash points (os._exit at the "
    "n-th clock read or after n log bytes) followed by a restart boot. Oracles: "
    "a history-free reference run per job in its own interpreter, independent "
    "feasibility and re-evaluation of the logged solution, parse-back equality. "
    "Non-trivial = at least two runs shared an interpreter or the directory was "
    "visited by at least two boots; distinct = distinct scenario digests."
    " Instance pools are stratified by structure class; the data of the bundled instances is compared with digests recorded on the pinned tree; the directory is also evaluated with other bound calculators and while a peer's claimed runs are still empty files.")
COMPONENTS = {
    "real": ["binpacking2d.experiment.rls/fea/base_setup, all 7 objectives, both "
             "encodings, PackingSpace", "tsp EA/FEA + TourLength",
             "examples/tsp_rls.py wiring (RLS + TourLength) on symmetric and "
             "asymmetric TSPLIB instances",
             "examples/ttp_example_experiment_rls_rs.py, "
             "examples/ttp_example_experiment_mo.py (Prioritize(Errors, "
             "GamePlanLength), RLS and NSGA-2, archive), "
             "examples/qap_example_experiment_rls_rs.py builders (Errors, "
             "GameEncoding, GamePlanSpace, QAPObjective)",
             "instgen.experiment.cmaes + Problem/InstanceDecoder/"
             "ErrorsAndHardness (inner budget lowered)",
             "dynamic_control.experiment_raw.cmaes + FigureOfMeritLE (shortened "
             "training horizons)",
             "moptipy run_experiment, Execution, _Process*, FileLogger, "
             "LogParser; Packing.from_log, packing_result.from_logs/"
             "from_single_log"],
    "stub": ["clock (_TIME_IN_NS in 9 moptipy modules)", "threading.Timer in "
             "_process_base", "default_rng of the experiment runner",
             "directory listing order (scandir in pycommons.io.path)",
             "file writes behind FileLogger (byte-counting crash point)",
             "peer worker (claims/completes log files in-process)"],
}
ASSUMPTIONS = [
    "moptipy's own guarantees (atomic O_EXCL claim, skip of claimed files) are "
    "part of the trusted base; a lost in-flight run after a crash is allowed",
    "instance loaders are trusted (instance data for the independent oracles is "
    "read through them)",
    "instance-generation and controller objectives are re-evaluated by a fresh "
    "objective in a fresh interpreter (no independent formula)",
]
FAULT_KINDS = ["crash:clock_read", "crash:log_bytes", "peer_claims",
               "peer_completes", "clock:random", "clock:jumps",
               "listing_permuted", "hashseed_varied", "warmup", "pre_warmup",
               "restart_boot"]
PROBES = ["job_first_in_interpreter", "job_after_same_execution",
          "job_after_other_setup", "job_skipped_peer_claim",
          "second_round_finds_files", "restart_completed_rest",
          "torn_or_empty_log_rejected", "domain:bp", "domain:tsp",
          "domain:ttp", "domain:qap", "domain:instgen", "domain:dc",
          "domain:dcs", "domain:ttpmo", "domain:atsp",
          "evaluate_from_logs", "surrogate_runs_without_log"]
HARD_CAP_S = 900.0
CHUNK = 1
SHRINK_RUNS = 25
SHRINK_S = 420.0
BOOT_TIMEOUT = 420.0
REF_FORMAT = 7     # bump when the canonical record of a reference run changes
DET_SAMPLE = {"quick": 6, "thorough": 40}   # a scenario is several interpreters
SECOND_POOL_WORKERS = 6


def plan(tier: str) -> list:
    if tier == "quick":
        return [{"name": "nofault", "n": 14, "faults": False,
                 "domains": ["bp", "bp", "tsp", "ttp", "qap"]},
                {"name": "fault", "n": 38, "faults": True,
                 "domains": ["bp", "bp", "bp", "bp", "tsp", "tsp", "ttp",
                             "ttp", "qap", "qap", "ttpmo", "atsp"]},
                {"name": "heavy", "n": 8, "faults": True,
                 "domains": ["instgen", "dc", "instgen", "instgen", "dcs"]}]
    return [{"name": "nofault", "n": 800, "faults": False,
             "domains": ["bp", "bp", "tsp", "ttp", "qap"]},
            {"name": "fault", "n": 2800, "faults": True,
             "domains": ["bp", "bp", "bp", "bp", "tsp", "tsp", "ttp", "ttp",
                         "qap", "qap", "ttpmo", "atsp"]},
            {"name": "heavy", "n": 200, "faults": True,
             "domains": ["instgen", "dc", "instgen", "instgen", "dcs"]}]


def warmup() -> None:
    # fill the numba disk cache for the kernels the boots will need
    doc = directed("quick")[0]
    execute(doc)


# ------------------------------------------------------------------ generation

def _gen_setups(rng: random.Random, dom: str) -> list:
    if dom == "bp":
        objs = sorted(jobs.BP_OBJECTIVES)
        out = [f"bp:rls:{rng.choice(objs)}:{rng.choice('12')}"]
        if rng.random() < 0.5:
            out.append(f"bp:fea:{rng.choice(objs)}:{rng.choice('12')}")
        elif rng.random() < 0.3:
            out = [f"bp:fea:{rng.choice(objs)}:{rng.choice('12')}"]
        return out
    if dom == "tsp":
        return rng.choice([["tsp:ea"], ["tsp:fea"], ["tsp:ea", "tsp:fea"],
                           ["tsp:feah"], ["tsp:ea", "tsp:feah"]])
    if dom == "atsp":
        return ["atsp:rls"]
    if dom == "ttp":
        return rng.choice([["ttp:rls"], ["ttp:rs"], ["ttp:rls", "ttp:rs"]])
    if dom == "ttpmo":
        return rng.choice([["ttpmo:rls"], ["ttpmo:nsga2"],
                           ["ttpmo:rls", "ttpmo:nsga2"]])
    if dom == "qap":
        return rng.choice([["qap:rls"], ["qap:rs"], ["qap:rls", "qap:rs"]])
    if dom == "instgen":
        return ["instgen:cmaes"]
    if dom == "dcs":
        return [rng.choice(["dcs:raw", "dcs:sur:2:8:6", "dcs:sur:1:12:8"])]
    return ["dc:cmaes"]


def generate(rng: random.Random, batch: dict) -> dict:
    dom = rng.choice(batch["domains"])
    heavy = dom in ("instgen", "dc", "dcs")
    setups = _gen_setups(rng, dom)
    pool = jobs.instances_for(dom)
    if dom == "instgen":
        if rng.random() < 0.4:
            # both slack variants of one template, as the bundled experiment
            t = rng.choice(["beng01", "cl01_020_01"])
            instances = [f"instgen:{t}:0.25", f"instgen:{t}:0.125"]
        else:
            instances = rng.sample(pool, rng.choice([1, 2]))
    else:
        classes = jobs.instance_classes(dom)
        k = 1 if heavy else min(len(classes), rng.choice([1, 2, 2, 3]))
        instances = [rng.choice(c) for c in rng.sample(classes, k)]
    if dom == "dcs":
        budget = rng.choice([4, 5, 6])   # >= warm-up + a few model rounds
    elif dom == "dc":
        budget = rng.choice([2, 3, 4])
    elif dom == "instgen":
        budget = rng.choice([6, 10, 14])
    else:
        budget = rng.choice([20, 40, 100, 200, 400])
    faults = batch.get("faults", False)
    if dom == "dcs":
        boots = []
        seeds = [rng.getrandbits(40)]
        reuse = rng.random() < 0.5
        if reuse:
            seeds = seeds * 2     # the same combination executed twice
        for b in range(1):
            boots.append({"hashseed": str(rng.randint(0, 4000)),
                          "clock": {"mode": "fixed", "tick": 1000},
                          "shuffle_seed": rng.getrandbits(30), "crash": None,
                          "actions": [{"a": "run_nolog", "seeds": seeds,
                                       "reuse_setup": reuse}]})
        return {"domain": dom, "setups": setups, "instances": instances,
                "budget": budget, "boots": boots}
    if dom == "instgen":
        max_runs = rng.choice([2, 3, 4])
    else:
        max_runs = 1 if heavy else rng.choice([1, 2, 2, 3])
    n_boots = 1 if heavy and not faults else rng.choice([1, 2, 2, 3])
    boots = []
    claimed = False
    for b in range(n_boots):
        last = b == n_boots - 1
        clock = {"mode": "fixed", "tick": rng.choice([1000, 1_000_000])}
        if faults:
            r = rng.random()
            if r < 0.3:
                clock = {"mode": "random", "tick": rng.choice(
                    [5000, 50_000_000]), "seed": rng.getrandbits(30)}
            elif r < 0.5:
                # a stalled node: the clock jumps forward by hours (several
                # times in long boots); time budgets on this clock expire
                clock["jumps"] = {
                    str(rng.randint(1, 40 if not heavy else 900)):
                    rng.choice([1, 5]) * 3_600_000_000_000
                    for _ in range(1 if not heavy else 24)}
        actions = []
        if faults and not heavy and not claimed and rng.random() < 0.3:
            actions.append({"a": "peer_claims", "frac": rng.choice(
                [0.2, 0.5]), "seed": rng.getrandbits(30)})
            claimed = True
        if last:
            n_runs = [max_runs] if rng.random() < 0.6 or max_runs == 1 \
                else sorted(set([1, max_runs]))
        else:
            k = rng.randint(1, max_runs)
            n_runs = [k] if rng.random() < 0.7 or k == 1 \
                else sorted(set([1, k]))
        actions.append({"a": "run", "n_runs": n_runs,
                        "warmup": (not heavy) and rng.random() < 0.5,
                        "pre_warmup": (not heavy) and rng.random() < 0.3})
        if claimed and last:
            actions.append({"a": "peer_completes"})
            claimed = False
        if dom == "bp" and (last or rng.random() < 0.4):
            actions.append({"a": "evaluate",
                            "listing_seed": rng.getrandbits(30),
                            "other_bounds": rng.random() < 0.5})
            if last and rng.random() < 0.5:
                actions.append({"a": "evaluate",
                                "listing_seed": rng.getrandbits(30)})
        crash = None
        if faults and not last and rng.random() < 0.6:
            if rng.random() < 0.6:
                crash = {"at": "clock_read", "count": rng.randint(1, 60)}
            else:
                crash = {"at": "log_bytes",
                         "count": rng.randint(1, 6000)}
        boots.append({"hashseed": str(rng.randint(0, 4000)) if faults
                      else "0", "clock": clock,
                      "shuffle_seed": rng.getrandbits(30),
                      "actions": actions, "crash": crash})
    return {"domain": dom, "setups": setups, "instances": instances,
            "budget": budget, "boots": boots}


def directed(tier: str) -> list:
    docs = []
    docs.append({"domain": "bp", "setups": ["bp:rls:binCountAndLastSmall:2",
                                            "bp:fea:binCountAndEmpty:1"],
                 "instances": ["bp:asqas08", "bp:a04"], "budget": 60,
                 "boots": [
        {"hashseed": "11", "clock": {"mode": "fixed", "tick": 1000},
         "shuffle_seed": 1, "crash": {"at": "clock_read", "count": 14},
         "actions": [{"a": "run", "n_runs": [2], "warmup": True,
                      "pre_warmup": False}]},
        {"hashseed": "12", "clock": {"mode": "random", "tick": 50000,
                                     "seed": 5},
         "shuffle_seed": 2, "crash": {"at": "log_bytes", "count": 2500},
         "actions": [{"a": "peer_claims", "frac": 0.3, "seed": 3},
                     {"a": "run", "n_runs": [1, 2], "warmup": False,
                      "pre_warmup": True}]},
        {"hashseed": "13", "clock": {"mode": "fixed", "tick": 1000000,
                                     "jumps": {"7": 3_600_000_000_000}},
         "shuffle_seed": 3, "crash": None,
         "actions": [{"a": "run", "n_runs": [1, 3], "warmup": True,
                      "pre_warmup": True},
                     {"a": "peer_completes"},
                     {"a": "evaluate", "listing_seed": 7,
                      "other_bounds": True},
                     {"a": "evaluate", "listing_seed": 8}]}]})
    # a directory evaluated while runs claimed by a peer are still empty
    # files (listed before or after completed logs, as the listing seeds say)
    docs.append({"domain": "bp", "setups": ["bp:rls:binCount:1"],
                 "instances": ["bp:beng01", "bp:asqas03"], "budget": 40,
                 "boots": [
        {"hashseed": "14", "clock": {"mode": "fixed", "tick": 1000},
         "shuffle_seed": 11, "crash": None,
         "actions": [{"a": "peer_claims", "frac": 0.5, "seed": 1},
                     {"a": "run", "n_runs": [3], "warmup": False,
                      "pre_warmup": False},
                     {"a": "evaluate", "listing_seed": 1},
                     {"a": "evaluate", "listing_seed": 2},
                     {"a": "evaluate", "listing_seed": 3}]},
        {"hashseed": "15", "clock": {"mode": "fixed", "tick": 1000},
         "shuffle_seed": 12, "crash": None,
         "actions": [{"a": "run", "n_runs": [3], "warmup": False,
                      "pre_warmup": False},
                     {"a": "peer_completes"},
                     {"a": "evaluate", "listing_seed": 4}]}]})
    for dom, setups, insts, budget in (
            ("tsp", ["tsp:ea", "tsp:fea"], ["tsp:burma14", "tsp:gr17"], 100),
            ("ttp", ["ttp:rls", "ttp:rs"], ["ttp:circ4", "ttp:nl6"], 80),
            ("qap", ["qap:rls", "qap:rs"],
             ["qap:nug12", "qap:lipa20a", "qap:tai12b", "qap:bur26a"], 80),
            ("tsp", ["tsp:feah"], ["tsp:cn11", "tsp:ulysses16", "tsp:gr96"],
             100),
            ("ttpmo", ["ttpmo:rls", "ttpmo:nsga2"], ["ttpmo:circ6"], 60),
            ("atsp", ["atsp:rls"], ["atsp:br17", "atsp:p43"], 60)):
        docs.append({"domain": dom, "setups": setups, "instances": insts,
                     "budget": budget, "boots": [
            {"hashseed": "21", "clock": {"mode": "fixed", "tick": 1000},
             "shuffle_seed": 4, "crash": {"at": "clock_read", "count": 9},
             "actions": [{"a": "run", "n_runs": [2], "warmup": True,
                          "pre_warmup": False}]},
            {"hashseed": "22", "clock": {"mode": "fixed", "tick": 1000},
             "shuffle_seed": 5, "crash": None,
             "actions": [{"a": "run", "n_runs": [1, 2], "warmup": False,
                          "pre_warmup": False}]}]})
    docs.append({"domain": "instgen", "setups": ["instgen:cmaes"],
                 "instances": ["instgen:beng01:0.25",
                               "instgen:beng01:0.125"],
                 "budget": 12, "boots": [
        {"hashseed": "31", "clock": {"mode": "fixed", "tick": 1000,
                                     # a node that stalls again and again
                                     "jumps": {str(q): 3_600_000_000_000
                                               for q in range(30, 1000, 17)}},
         "shuffle_seed": 6, "crash": None,
         "actions": [{"a": "run", "n_runs": [4], "warmup": False,
                      "pre_warmup": False}]}]})
    docs.append({"domain": "dcs", "setups": ["dcs:raw"],
                 "instances": ["dcs:stuart_landau"], "budget": 4,
                 "boots": [
        {"hashseed": "51", "clock": {"mode": "fixed", "tick": 1000},
         "shuffle_seed": 8, "crash": None,
         "actions": [{"a": "run", "n_runs": [1], "warmup": False,
                      "pre_warmup": False}]}]})
    docs.append({"domain": "dcs", "setups": ["dcs:sur:2:8:6"],
                 "instances": ["dcs:stuart_landau"], "budget": 5,
                 "boots": [
        {"hashseed": "52", "clock": {"mode": "fixed", "tick": 1000},
         "shuffle_seed": 9, "crash": None,
         "actions": [{"a": "run_nolog", "seeds": [4711, 4711],
                      "reuse_setup": True}]}]})
    docs.append({"domain": "dc", "setups": ["dc:cmaes"],
                 "instances": ["dc:stuart_landau:linear"], "budget": 3,
                 "boots": [
        {"hashseed": "41", "clock": {"mode": "fixed", "tick": 1000},
         "shuffle_seed": 7, "crash": None,
         "actions": [{"a": "run", "n_runs": [1], "warmup": False,
                      "pre_warmup": False}]}]})
    # six state dimensions of which two enter the figure of merit
    docs.append({"domain": "dc", "setups": ["dc:cmaes"],
                 "instances": ["dc:three_coupled_oscillators:ann0"],
                 "budget": 3, "boots": [
        {"hashseed": "42", "clock": {"mode": "fixed", "tick": 1000},
         "shuffle_seed": 8, "crash": None,
         "actions": [{"a": "run", "n_runs": [1], "warmup": False,
                      "pre_warmup": False}]}]})
    return docs


# ------------------------------------------------------------------ boot process

def _emit(fh, rec: dict) -> None:
    fh.write(json.dumps(rec) + "\n")
    fh.flush()
    os.fsync(fh.fileno())


def boot_main(argv: list) -> int:
    """Runs inside a fresh interpreter: one boot of a scenario."""
    import warnings
    warnings.simplefilter("ignore")
    with open(argv[0], encoding="utf-8") as f:
        spec = json.load(f)
    from simkit import seams
    clock, crash = seams.install(spec["clock"], spec.get("crash"),
                                 spec["shuffle_seed"])
    from moptipy.api.experiment import run_experiment
    base = spec["dir"]
    ev = open(spec["events"], "a", encoding="utf-8")
    _emit(ev, {"e": "boot", "hashseed": os.environ.get("PYTHONHASHSEED")})
    setups = spec["setups"]
    instances = spec["instances"]
    budget = int(spec["budget"])

    def on_completion(instance, log_file, process):
        sp = process._solution_space
        y = sp.create()
        process.get_copy_of_best_y(y)
        _emit(ev, {"e": "run", "file": os.path.relpath(str(log_file), base),
                   "best_f": repr(process.get_best_f()),
                   "fes": int(process.get_consumed_fes()),
                   "lifes": int(process.get_last_improvement_fe()),
                   "y": sp.to_str(y)})

    for action in spec["actions"]:
        a = action["a"]
        if a == "run":
            _emit(ev, {"e": "run_experiment", "n_runs": action["n_runs"]})
            run_experiment(
                base_dir=base,
                instances=[(lambda i=i: jobs.make_instance(i))
                           for i in instances],
                setups=[jobs.make_setup(s, budget) for s in setups],
                n_runs=action["n_runs"] if len(action["n_runs"]) > 1
                else action["n_runs"][0],
                perform_warmup=bool(action["warmup"]),
                perform_pre_warmup=bool(action["pre_warmup"]),
                on_completion=on_completion)
            _emit(ev, {"e": "run_experiment_done"})
        elif a == "run_nolog":
            # the surrogate builders cannot run with a log file in this
            # environment (known finding); without one they can
            for sid in setups:
                for iid in instances:
                    exe = None
                    for seed in action["seeds"]:
                        if exe is None or not action.get("reuse_setup"):
                            # (with reuse_setup one Execution object and its
                            # components serve all runs, as Execution allows)
                            exe = jobs.make_setup(sid, budget)(
                                jobs.make_instance(iid))
                        exe.set_log_all_fes(False)
                        exe.set_rand_seed(int(seed))
                        with exe.execute() as process:
                            sp = process._solution_space
                            y = sp.create()
                            process.get_copy_of_best_y(y)
                            _emit(ev, {
                                "e": "nolog_run", "setup": sid, "inst": iid,
                                "seed": int(seed),
                                "best_f": repr(process.get_best_f()),
                                "fes": int(process.get_consumed_fes()),
                                "lifes": int(
                                    process.get_last_improvement_fe()),
                                "y": sp.to_str(y)})
        elif a == "peer_claims":
            for rel in action["files"]:
                p = os.path.join(base, rel)
                os.makedirs(os.path.dirname(p), exist_ok=True)
                try:
                    os.close(os.open(p, os.O_CREAT | os.O_EXCL))
                    _emit(ev, {"e": "peer_claimed", "file": rel})
                except FileExistsError:
                    pass
        elif a == "peer_completes":
            for rel, src in action["files"].items():
                p = os.path.join(base, rel)
                if os.path.exists(p) and os.path.getsize(p) == 0:
                    with open(src, encoding="utf-8") as f:
                        text = json.load(f)["log_text"]
                    with open(p, "w", encoding="utf-8") as f:
                        f.write(text)
                    _emit(ev, {"e": "peer_completed", "file": rel})
        elif a == "evaluate":
            from moptipyapps.binpacking2d.packing import Packing
            from moptipyapps.binpacking2d.packing_result import (
                from_logs, from_single_log)
            from moptipyapps.binpacking2d.packing_space import PackingSpace
            seams.install_listing_order(action["listing_seed"])
            # what is on disk right now (own reader): a claimed-but-empty or
            # torn file legitimately makes the directory evaluation raise
            bad_now = []
            good_now = []
            for root0, _d0, names0 in os.walk(base):
                for nm in names0:
                    if nm.endswith(".txt"):
                        p0 = os.path.join(root0, nm)
                        try:
                            with open(p0, encoding="utf-8") as f0:
                                jobs.record_from_log_text(f0.read())
                            good_now.append(os.path.relpath(p0, base))
                        except ValueError:
                            bad_now.append(os.path.relpath(p0, base))
            _emit(ev, {"e": "disk", "incomplete": sorted(bad_now),
                       "complete": sorted(good_now)})
            got = []
            try:
                from_logs(base, got.append)
                whole = [str(r.end_result.algorithm) + "_"
                         + str(r.end_result.instance) + "_"
                         + hex(r.end_result.rand_seed) + ".txt"
                         for r in got]
                _emit(ev, {"e": "from_logs", "order": whole})
            except Exception as exc:  # noqa: BLE001
                _emit(ev, {"e": "from_logs", "raised":
                           f"{type(exc).__name__}: {exc}"[:300]})
            if action.get("other_bounds"):
                # the same directory evaluated again in this process with
                # another collection of bound calculators (one of our own):
                # every record must carry exactly these bounds
                def area_bound(i):
                    a = sum(int(r[0]) * int(r[1]) * int(r[2]) for r in i)
                    return -(-a // (int(i.bin_width) * int(i.bin_height)))
                got2 = []
                try:
                    from_logs(base, got2.append,
                              bin_bounds={"bins.lowerBound.area": area_bound})
                    _emit(ev, {"e": "from_logs_other", "bounds": [
                        [str(r.end_result.instance),
                         {k: int(v) for k, v in r.bin_bounds.items()}]
                        for r in got2]})
                except Exception as exc:  # noqa: BLE001
                    _emit(ev, {"e": "from_logs_other", "raised":
                               f"{type(exc).__name__}: {exc}"[:300]})
            files = []
            for root, _dirs, names in os.walk(base):
                for nm in names:
                    if nm.endswith(".txt"):
                        files.append(os.path.join(root, nm))
            for p in sorted(files):
                rel = os.path.relpath(p, base)
                rec = {"e": "parsed", "file": rel,
                       "listing_seed": action["listing_seed"]}
                try:
                    r = from_single_log(p)
                    rec["objectives"] = {k: v for k, v in
                                         r.objectives.items()}
                    rec["objective_bounds"] = dict(r.objective_bounds)
                    rec["bin_bounds"] = dict(r.bin_bounds)
                    rec["best_f"] = repr(r.end_result.best_f)
                    rec["total_fes"] = int(r.end_result.total_fes)
                    rec["n_items"] = int(r.n_items)
                    rec["bin_width"] = int(r.bin_width)
                    rec["bin_height"] = int(r.bin_height)
                except Exception as exc:  # noqa: BLE001
                    rec["single_raised"] = f"{type(exc).__name__}: {exc}"[:200]
                try:
                    pk = Packing.from_log(p)
                    rec["packing"] = PackingSpace(pk.instance).to_str(pk)
                    rec["n_bins"] = int(pk.n_bins)
                except Exception as exc:  # noqa: BLE001
                    rec["packing_raised"] = \
                        f"{type(exc).__name__}: {exc}"[:200]
                _emit(ev, rec)
    _emit(ev, {"e": "done", "clock_reads": clock.reads,
               "clock_advanced": clock.advanced()})
    ev.close()
    return 0


def ref_main(argv: list) -> int:
    """Fresh interpreter: one history-free run, or one fresh objective evaluation."""
    import warnings
    warnings.simplefilter("ignore")
    with open(argv[0], encoding="utf-8") as f:
        spec = json.load(f)
    from simkit import seams
    seams.install({"mode": "fixed", "tick": 1000}, None, 0)
    inst = jobs.make_instance(spec["inst"])
    exe = jobs.make_setup(spec["setup"], int(spec["budget"]))(inst)
    out = {}
    if spec["mode"] == "run":
        from pycommons.io.path import Path
        log = spec["out"] + f".{os.getpid()}.log.txt"
        if os.path.exists(log):
            os.remove(log)
        exe.set_rand_seed(int(spec["seed"]))
        exe.set_log_file(Path(log))
        with exe.execute() as process:
            sp = process._solution_space
            y = sp.create()
            process.get_copy_of_best_y(y)
            out["inproc"] = {"best_f": repr(process.get_best_f()),
                             "fes": int(process.get_consumed_fes()),
                             "lifes": int(
                                 process.get_last_improvement_fe()),
                             "y": sp.to_str(y)}
        with open(log, encoding="utf-8") as f:
            out["log_text"] = f.read()
        os.remove(log)
        out["record"] = jobs.record_from_log_text(out["log_text"])
    elif spec["mode"] == "run_nolog":
        exe.set_log_all_fes(False)
        exe.set_rand_seed(int(spec["seed"]))
        with exe.execute() as process:
            sp = process._solution_space
            y = sp.create()
            process.get_copy_of_best_y(y)
            out["inproc"] = {"best_f": repr(process.get_best_f()),
                             "fes": int(process.get_consumed_fes()),
                             "lifes": int(
                                 process.get_last_improvement_fe()),
                             "y": sp.to_str(y)}
    else:
        sp = exe._solution_space
        y = sp.from_str(spec["y"])
        obj = exe._objective
        out["value"] = repr(obj.evaluate(y))
        out["lower"] = repr(obj.lower_bound())
        out["upper"] = repr(obj.upper_bound())
        if spec["inst"].split(":")[0] in ("dc", "dcs"):
            # the figure of merit as documented, from the simulator's rows
            # alone: exp(mean(log(J+1)))-1 over the training cases, 1e200 as
            # soon as one case leaves [0, 1e100]
            import numpy as np
            from moptipyapps.dynamic_control.ode import run_ode
            from simkit.oracles import ode as oorc
            system, ctrl = inst.system, inst.controller
            js = []
            for start in np.array(system.training_starting_states):
                ode = run_ode(np.array(start, dtype=float),
                              system.equations, ctrl.controller,
                              np.array(y, dtype=float),
                              int(system.control_dims),
                              int(system.training_steps),
                              float(system.training_time))
                j = oorc.j_reference(ode, int(system.state_dims),
                                     int(system.state_dims_in_j),
                                     float(system.gamma))
                if not 0.0 <= j <= 1e100:
                    js = None
                    break
                js.append(j)
            ind = 1e200 if js is None else float(
                np.expm1(np.log1p(np.array(js, dtype=float)).mean()))
            if not 0.0 <= ind <= 1e100:
                ind = 1e200
            out["independent"] = repr(ind)
    tmp = spec["out"] + f".{os.getpid()}.tmp"
    with open(tmp, "w", encoding="utf-8") as f:
        json.dump(out, f)
    os.replace(tmp, spec["out"])
    return 0


# ------------------------------------------------------------------ orchestrator

def _ref_dir() -> str:
    d = os.path.join(core.WORK, "c12ref", os.environ.get("VERIF_TREE", "dev"))
    os.makedirs(d, exist_ok=True)
    return d


def _spawn(args: list, hashseed: str, timeout: float) -> tuple[int, str]:
    env = dict(os.environ)
    env["PYTHONHASHSEED"] = hashseed
    try:
        p = subprocess.run([core.PYTHON, core.MAIN] + args, env=env,
                           capture_output=True, text=True, timeout=timeout)
        return p.returncode, (p.stdout + p.stderr)[-3000:]
    except subprocess.TimeoutExpired:
        return 124, "timeout"


def _reference(spec: dict, res: dict) -> dict | None:
    key = core.digest([REF_FORMAT, spec])[:32]
    path = os.path.join(_ref_dir(), key + ".json")
    if not os.path.exists(path):
        sp = dict(spec)
        sp["out"] = path
        sfile = path + f".spec.{os.getpid()}"
        with open(sfile, "w", encoding="utf-8") as f:
            json.dump(sp, f)
        rc, out = _spawn(["ref", sfile], "0", BOOT_TIMEOUT)
        os.remove(sfile)
        core.bump(res["probes"], "reference_runs_computed")
        if rc != 0 or not os.path.exists(path):
            core.violation(
                res, "reference-run-failed",
                f"a single history-free run/evaluation of {spec} failed "
                f"(rc={rc}): {out[-1200:]}")
            return None
    with open(path, encoding="utf-8") as f:
        data = json.load(f)
    data["__path"] = path
    return data


_INST_CACHE: dict = {}


def _inst_data(inst_id: str) -> dict:
    """Instance data for the independent oracles (read through the repo's loaders)."""
    if inst_id in _INST_CACHE:
        return _INST_CACHE[inst_id]
    import numpy as np
    dom = inst_id.split(":")[0]
    inst = jobs.make_instance(inst_id)
    d: dict = {"name": str(inst)}
    if dom == "bp":
        d.update({"W": int(inst.bin_width), "H": int(inst.bin_height),
                  "items": [[int(v) for v in r] for r in inst],
                  "lb": int(inst.lower_bound_bins)})
    elif dom in ("tsp", "atsp"):
        d["matrix"] = [[int(v) for v in r] for r in np.asarray(inst)]
    elif dom == "qap":
        d["flows"] = [[int(v) for v in r] for r in inst.flows]
        d["dists"] = [[int(v) for v in r] for r in inst.distances]
    elif dom in ("ttp", "ttpmo"):
        # the benchmark's documented setting, NOT what the loader reports:
        # double round robin, home/away streaks of 1..3 games, repeated
        # pairings at least one game apart (no upper limit); circ* and con*
        # distances by their defining formulas, the others through the loader
        nm = inst_id.split(":")[1]
        n = int("".join(ch for ch in nm if ch.isdigit()))
        days = (n - 1) * 2
        if nm.startswith("circ"):
            dist = [[min(abs(a - b), n - abs(a - b)) for b in range(n)]
                    for a in range(n)]
        elif nm.startswith("con"):
            dist = [[0 if a == b else 1 for b in range(n)] for a in range(n)]
        else:
            dist = [[int(v) for v in r] for r in np.asarray(inst)]
        d["dist"] = dist
        d.update({"n": n, "rounds": 2, "hs": [1, 3], "as": [1, 3],
                  "sep": [1, days]})
    elif dom == "instgen":
        sp = inst.solution_space
        d.update({"inst_name": sp.inst_name, "W": int(sp.bin_width),
                  "H": int(sp.bin_height), "n_items": int(sp.n_items),
                  "min_bins": int(sp.min_bins),
                  "dim": int(inst.search_space.dimension)})
    elif dom in ("dc", "dcs"):
        d["dim"] = int(inst.controller.parameter_space().dimension)
    # The problem data itself: for the bundled instances of the pools a
    # digest of what the loaders delivered on the pinned tree is on record
    # (simkit/engines/c12_golden.json, written by tools/make_golden.py). The
    # oracles below take their distances, flows and item lists from the
    # loaders, so without it a loader that changes the data would change run,
    # log and re-evaluation consistently.
    data = {k: d[k] for k in ("W", "H", "items", "matrix", "flows", "dists",
                              "dist") if k in d}
    if data and dom != "instgen":
        d["data_digest"] = core.digest(data)
        key = inst_id if dom not in ("atsp", "ttpmo") else {
            "atsp": "tsp:", "ttpmo": "ttp:"}[dom] + inst_id.split(":", 1)[1]
        want = _golden().get(key)
        d["data_pinned"] = want
    _INST_CACHE[inst_id] = d
    return d


_GOLDEN: dict = {}


def _golden() -> dict:
    if not _GOLDEN:
        path = os.path.join(os.path.dirname(os.path.abspath(__file__)),
                            "c12_golden.json")
        try:
            with open(path, encoding="utf-8") as f:
                _GOLDEN.update(json.load(f))
        except FileNotFoundError:
            _GOLDEN["__missing__"] = True
    return _GOLDEN


def _algo_name(setup_id: str, inst_id: str, budget: int) -> str:
    key = ("algo", setup_id, inst_id.split(":")[0])
    if key not in _INST_CACHE:
        from moptipy.utils.strings import sanitize_name
        exe = jobs.make_setup(setup_id, budget)(jobs.make_instance(inst_id))
        _INST_CACHE[key] = sanitize_name(str(exe._algorithm))
    return _INST_CACHE[key]


def _truth(dom: str, setup_id: str, inst_id: str, rec: dict, budget: int,
           res: dict, where: str) -> bool:
    """Independent feasibility + re-evaluation of a logged result."""
    from simkit.oracles import packing as porc
    from simkit.oracles import qap as qorc
    from simkit.oracles import tsp as torc
    from simkit.oracles import ttp as ttorc
    d = _inst_data(inst_id)
    if d.get("data_pinned") and d["data_pinned"] != d.get("data_digest"):
        core.violation(
            res, "instance-data-differs-from-pinned-record",
            f"{where}: the problem data the loader delivers for {inst_id} "
            f"(digest {d.get('data_digest')}) is not the data on record for "
            f"the pinned tree ({d['data_pinned']}); distances, flows or item "
            f"lists of a bundled instance changed")
        return False
    if rec["error_sections"]:
        core.violation(res, "log-has-error-section",
                       f"{where}: sections {rec['error_sections']}")
        return False
    if int(rec["total_fes"]) > budget or int(rec["max_fes"]) != budget:
        core.violation(res, "budget-exceeded",
                       f"{where}: {rec['total_fes']} FEs, maxFEs="
                       f"{rec['max_fes']}, budget {budget}")
        return False
    try:
        if dom == "bp":
            vals = [int(v) for v in rec["y"].replace("\n", ";").split(";")]
            rows = [vals[i:i + 6] for i in range(0, len(vals), 6)]
            bad = porc.infeasibility(d["W"], d["H"], d["items"], rows,
                                     len({r[1] for r in rows}))
            if bad:
                core.violation(res, f"final-solution-infeasible:{bad[0]}",
                               f"{where}: logged packing violates {bad}: "
                               f"{rows}")
                return False
            oname = setup_id.split(":")[2]
            want = porc.OBJECTIVES[oname](d["W"], d["H"], d["items"], rows)
            if str(want) != rec["best_f"]:
                core.violation(
                    res, "logged-value-not-true",
                    f"{where}: logged bestF={rec['best_f']} but {oname} of "
                    f"the logged packing is {want}", domain=dom)
                return False
        elif dom in ("tsp", "atsp"):
            perm = [int(v) for v in rec["y"].split(";")]
            if not torc.is_permutation(perm, len(d["matrix"])):
                core.violation(res, "final-solution-infeasible:permutation",
                               f"{where}: {perm}")
                return False
            want = torc.tour_length(d["matrix"], perm)
            if str(want) != rec["best_f"]:
                core.violation(res, "logged-value-not-true",
                               f"{where}: logged bestF={rec['best_f']}, tour "
                               f"length of logged tour {perm} is {want}",
                               domain=dom)
                return False
        elif dom == "qap":
            perm = [int(v) for v in rec["y"].split(";")]
            if not torc.is_permutation(perm, len(d["flows"])):
                core.violation(res, "final-solution-infeasible:permutation",
                               f"{where}: {perm}")
                return False
            want = qorc.objective(d["flows"], d["dists"], perm)
            if str(want) != rec["best_f"]:
                core.violation(res, "logged-value-not-true",
                               f"{where}: logged bestF={rec['best_f']}, "
                               f"flow-distance sum of {perm} is {want}",
                               domain=dom)
                return False
        elif dom in ("ttp", "ttpmo"):
            n = d["n"]
            days = (n - 1) * d["rounds"]

            def check_plan(xtext, ytext, what):
                flat = [int(v) for v in ytext.split("\n")[0].split(";")]
                plan_ = [flat[i * n:(i + 1) * n] for i in range(days)]
                bad = ttorc.shape_problems(plan_, n, days) \
                    if len(flat) == n * days else ["shape"]
                if bad:
                    core.violation(
                        res, f"final-solution-infeasible:{bad[0]}",
                        f"{where}: {what} plan {plan_} has {bad}")
                    return None
                x = [int(v) for v in xtext.split(";")]
                if ttorc.decode_games(x, n, days) != plan_:
                    core.violation(
                        res, "final-solution-not-the-decoding-of-x",
                        f"{where}: {what} plan is not the earliest-slot "
                        f"decoding of the logged permutation {x}")
                    return None
                err = ttorc.errors_consistent(
                    plan_, n, d["rounds"], d["hs"][0], d["hs"][1],
                    d["as"][0], d["as"][1], d["sep"][0], d["sep"][1])
                return plan_, err
            got = check_plan(rec["x"], rec["y"], "best")
            if got is None:
                return False
            plan_, want = got
            if dom == "ttp":
                if str(want) != rec["best_f"]:
                    core.violation(
                        res, "logged-value-not-true",
                        f"{where}: logged bestF={rec['best_f']}, documented "
                        f"error count of the logged plan is {want}; plan "
                        f"{plan_}", domain=dom)
                    return False
            else:
                bye = 2 * max(max(r) for r in d["dist"]) + 1
                ub_len = n * days * bye
                length = ttorc.plan_length(plan_, d["dist"], bye)
                scal = want * (1 + ub_len) + length
                if rec["best_fs"] != f"{want};{length}" or \
                        str(scal) != rec["best_f"]:
                    core.violation(
                        res, "logged-value-not-true",
                        f"{where}: logged bestF={rec['best_f']} bestFs="
                        f"{rec['best_fs']}; errors/length of the logged "
                        f"plan are {want}/{length}, prioritised sum {scal} "
                        f"(bye penalty {bye}, length bound {ub_len})",
                        domain=dom)
                    return False
                # every archived solution must be true as well
                quals = rec["archive_qualities"][1:]
                if len(quals) != len(rec["archive"]):
                    core.violation(res, "logged-value-not-true",
                                   f"{where}: {len(rec['archive'])} archived "
                                   f"solutions, {len(quals)} quality rows",
                                   domain=dom)
                    return False
                for k, (ax, ay) in enumerate(rec["archive"]):
                    g2 = check_plan(ax, ay, f"archive[{k}]")
                    if g2 is None:
                        return False
                    p2, e2 = g2
                    l2 = ttorc.plan_length(p2, d["dist"], bye)
                    row = quals[k].split(";")
                    if [str(e2 * (1 + ub_len) + l2), str(e2), str(l2)] != \
                            row[-3:]:
                        core.violation(
                            res, "logged-value-not-true",
                            f"{where}: archive[{k}] logged qualities {row}, "
                            f"recomputed f/errors/length "
                            f"{e2 * (1 + ub_len) + l2}/{e2}/{l2}",
                            domain=dom)
                        return False
        elif dom == "instgen":
            parts = rec["y"].split(";")
            name, W, H = parts[0], int(parts[2]), int(parts[3])
            items = []
            for p in parts[4:]:
                q = [int(v) for v in p.split(",")]
                items.append(q + [1] if len(q) == 2 else q)
            n_items = sum(i[2] for i in items)
            area = sum(i[0] * i[1] * i[2] for i in items)
            A = d["W"] * d["H"]
            if name != d["inst_name"] or W != d["W"] or H != d["H"] \
                    or n_items != d["n_items"] or not (
                    (d["min_bins"] - 1) * A < area <= d["min_bins"] * A):
                core.violation(
                    res, "final-solution-infeasible:template",
                    f"{where}: generated instance {rec['y']} does not keep "
                    f"the template's name/bin/item count/bin need {d}")
                return False
        elif dom in ("dc", "dcs"):
            vec = [float(v) for v in rec["y"].split(";")]
            if len(vec) != d["dim"] or any(
                    not (-32.0 <= v <= 32.0) for v in vec):
                core.violation(res, "final-solution-infeasible:box",
                               f"{where}: controller vector {vec}")
                return False
        if dom in ("instgen", "dc", "dcs"):
            ev = _reference({"mode": "eval", "setup": setup_id,
                             "inst": inst_id, "budget": budget,
                             "y": rec["y"]}, res)
            if ev is None:
                return False
            if "independent" in ev:
                from simkit.oracles import ode as oorc
                if not oorc.rel_close(float(rec["best_f"]),
                                      float(ev["independent"]), 1e-9):
                    core.violation(
                        res, "logged-value-not-true",
                        f"{where}: logged bestF={rec['best_f']}, but the "
                        f"documented figure of merit of the logged "
                        f"controller, computed from simulations of the "
                        f"training cases alone, is {ev['independent']}")
                    return False
            if float(ev["value"]) != float(rec["best_f"]):
                core.violation(
                    res, "logged-value-not-true",
                    f"{where}: logged bestF={rec['best_f']} but a fresh "
                    f"objective in a fresh interpreter gives {ev['value']} "
                    f"for the logged solution", domain=dom)
                return False
            if not float(ev["lower"]) <= float(rec["best_f"]):
                core.violation(res, "logged-value-not-true",
                               f"{where}: bestF below the objective's lower "
                               f"bound {ev['lower']}", domain=dom)
                return False
    except (ValueError, IndexError) as exc:
        core.violation(res, "final-solution-unparseable",
                       f"{where}: {type(exc).__name__}: {exc}; y="
                       f"{rec['y'][:300]}")
        return False
    return True


def _signature(out: str) -> str:
    """exception type + innermost frame + innermost moptipy/moptipyapps frame."""
    import re
    frames = re.findall(r'File "([^"]+)", line \d+, in (\w+)', out)
    exc = re.findall(r"^(\w+(?:\.\w+)*(?:Error|Exception))\b", out,
                     flags=re.M)
    parts = [exc[-1] if exc else "?"]
    if frames:
        f, fn = frames[-1]
        parts.append(f"{os.path.basename(f)}:{fn}")
        for f, fn in reversed(frames):
            if "/moptipy/" in f or "/moptipyapps/" in f:
                parts.append(f"{os.path.basename(f)}:{fn}")
                break
    return "<-".join(parts)


def _norm(text: str) -> str:
    return "\n".join(ln.strip() for ln in text.splitlines() if ln.strip())


def execute(doc: dict) -> dict:
    from moptipy.utils.nputils import rand_seeds_from_str
    res = core.new_result()
    dom = doc["domain"]
    core.bump(res["probes"], f"domain:{dom}")
    budget = int(doc["budget"])
    tag = f"{core.digest(doc)[:16]}-{os.getpid()}"
    root = os.path.join(core.WORK, "c12", tag)
    base = os.path.join(root, "results")
    if os.path.exists(root):
        shutil.rmtree(root)
    os.makedirs(base)
    try:
        _run_scenario(doc, dom, budget, root, base, res, rand_seeds_from_str)
    finally:
        shutil.rmtree(root, ignore_errors=True)
    return res


def _job_paths(doc: dict, budget: int, runs: int, seeds_fn) -> dict:
    """rel path -> (setup_id, inst_id, seed) for n_runs = runs."""
    out = {}
    for s in doc["setups"]:
        for i in doc["instances"]:
            iname = _inst_data(i)["name"]
            from moptipy.utils.strings import sanitize_name
            iname = sanitize_name(iname)
            aname = _algo_name(s, i, budget)
            for seed in seeds_fn(iname, runs):
                rel = os.path.relpath(jobs.log_path("/r", aname, iname, seed),
                                      "/r")
                out[rel] = (s, i, int(seed))
    return out


def _run_scenario(doc, dom, budget, root, base, res, seeds_fn) -> None:
    boots = doc["boots"]
    events: list = []       # (boot index, record)
    expected: dict = {}     # rel -> (setup, inst, seed)
    claimed: dict = {}      # rel -> job, claimed by the fake peer
    maybe: dict = {}        # files a crashed boot may or may not have created
    torn: set = set()       # files whose write was cut by a crash
    crashes = 0
    restart_pending = False
    for bi, boot in enumerate(boots):
        spec = {"dir": base, "events": os.path.join(root, f"ev{bi}.jsonl"),
                "clock": boot["clock"], "crash": boot.get("crash"),
                "shuffle_seed": boot["shuffle_seed"],
                "setups": doc["setups"], "instances": doc["instances"],
                "budget": budget, "actions": []}
        here: dict = {}
        for action in boot["actions"]:
            act = dict(action)
            if act["a"] == "run":
                for r in act["n_runs"]:
                    here.update(_job_paths(doc, budget, r, seeds_fn))
                if act["warmup"]:
                    core.bump(res["faults"], "warmup")
                if act["pre_warmup"]:
                    core.bump(res["faults"], "pre_warmup")
            elif act["a"] == "peer_claims":
                # claim a seeded subset of the files this boot would create
                nxt = [a for a in boot["actions"] if a["a"] == "run"]
                runs = max(nxt[0]["n_runs"]) if nxt else 1
                cand = sorted(_job_paths(doc, budget, runs, seeds_fn).items())
                rnd = random.Random(act["seed"])
                pick = [c for c in cand
                        if rnd.random() < act["frac"]
                        and not os.path.exists(os.path.join(base, c[0]))]
                act["files"] = [c[0] for c in pick]
                for rel, job in pick:
                    claimed[rel] = job
                    here[rel] = job
            elif act["a"] == "peer_completes":
                files = {}
                for rel, (s, i, seed) in sorted(claimed.items()):
                    ref = _reference({"mode": "run", "setup": s, "inst": i,
                                      "seed": seed, "budget": budget}, res)
                    if ref is None:
                        return
                    files[rel] = ref["__path"]
                act["files"] = files
            spec["actions"].append(act)
        sfile = os.path.join(root, f"boot{bi}.json")
        with open(sfile, "w", encoding="utf-8") as f:
            json.dump(spec, f)
        if boot["hashseed"] != "0":
            core.bump(res["faults"], "hashseed_varied")
        if boot["clock"].get("mode") == "random":
            core.bump(res["faults"], "clock:random")
        if boot["clock"].get("jumps"):
            core.bump(res["faults"], "clock:jumps")
        if restart_pending:
            core.bump(res["faults"], "restart_boot")
        rc, out = _spawn(["boot", sfile], boot["hashseed"], BOOT_TIMEOUT)
        recs = []
        if os.path.exists(spec["events"]):
            with open(spec["events"], encoding="utf-8") as f:
                for line in f:
                    line = line.strip()
                    if line:
                        try:
                            recs.append(json.loads(line))
                        except ValueError:
                            pass
        for r in recs:
            events.append((bi, r))
        done = any(r["e"] == "done" for r in recs)
        if rc == 137 and boot.get("crash"):
            maybe.update(here)
            crashes += 1
            if boot["crash"]["at"] == "log_bytes":
                # the log being written when the process died belongs to
                # the last run that reported completion in this boot
                runs_here = [r["file"] for r in recs if r["e"] == "run"]
                if runs_here:
                    torn.add(runs_here[-1])
            restart_pending = True
            core.bump(res["faults"], "crash:" + boot["crash"]["at"])
            res["events"].append(["boot", bi, "crashed",
                                  sum(1 for r in recs if r["e"] == "run")])
        elif rc == 0 and done:
            restart_pending = False
            expected.update(here)
            res["events"].append(["boot", bi, "ok",
                                  sum(1 for r in recs if r["e"] == "run")])
            for r in recs:
                if r["e"] == "done":
                    res["sim_time"] += float(r["clock_advanced"])
        elif rc == 124 and dom == "dcs":
            # learned ANN system models can be legally stiff (slow, not
            # non-terminating): undecided, never a violation
            core.bump(res["probes"], "undecided:dcs_timeout")
            res["events"].append(["boot", bi, "undecided-timeout"])
            return
        elif rc == 124:
            core.violation(res, "run-did-not-terminate",
                           f"boot {bi} exceeded {BOOT_TIMEOUT}s; setups="
                           f"{doc['setups']} instances={doc['instances']} "
                           f"budget={budget}")
            return
        else:
            core.violation(res, "experiment-raised",
                           f"boot {bi} ended with rc={rc}: {out[-1500:]}",
                           signature=_signature(out), domain=dom)
            return
        for r in recs:
            if r["e"] == "peer_claimed":
                core.bump(res["faults"], "peer_claims")
            elif r["e"] == "peer_completed":
                core.bump(res["faults"], "peer_completes")
                claimed.pop(r["file"], None)

    # ---------------------------------------------------------------- runs without log files
    n_nolog = 0
    if os.environ.get("VERIF_C12_DEBUG"):
        with open(os.environ["VERIF_C12_DEBUG"], "w", encoding="utf-8") as fdbg:
            for bi0, r0 in events:
                fdbg.write(json.dumps([bi0, {k: (v if len(str(v)) < 300
                                                 else str(v)[:300])
                                             for k, v in r0.items()}]) + "\n")
    for bi, r in events:
        if r["e"] != "nolog_run":
            continue
        n_nolog += 1
        res["ops"] += 1
        where = (f"{r['setup']} on {r['inst']} seed {hex(r['seed'])} budget "
                 f"{budget} (no log file)")
        ref = _reference({"mode": "run_nolog", "setup": r["setup"],
                          "inst": r["inst"], "seed": r["seed"],
                          "budget": budget}, res)
        if ref is None:
            return
        for field in ("best_f", "fes", "lifes", "y"):
            if r[field] != ref["inproc"][field]:
                core.violation(
                    res, "run-differs-from-history-free-reference",
                    f"{where}: field {field}: boot {bi} got "
                    f"{str(r[field])[:200]!r}, a single fresh run gives "
                    f"{str(ref['inproc'][field])[:200]!r}", field=field,
                    domain=dom)
                return
        if int(r["fes"]) > budget:
            core.violation(res, "budget-exceeded",
                           f"{where}: {r['fes']} FEs")
            return
        d = _inst_data(r["inst"])
        vec = [float(v) for v in r["y"].split(";")]
        if len(vec) != d["dim"] or any(not -32.0 <= v <= 32.0 for v in vec):
            core.violation(res, "final-solution-infeasible:box",
                           f"{where}: controller vector {vec}")
            return
        ev = _reference({"mode": "eval", "setup": r["setup"],
                         "inst": r["inst"], "budget": budget, "y": r["y"]},
                        res)
        if ev is None:
            return
        if float(ev["value"]) != float(r["best_f"]):
            core.violation(
                res, "logged-value-not-true",
                f"{where}: best f={r['best_f']} but a fresh objective in a "
                f"fresh interpreter gives {ev['value']}", domain=dom)
            return
        res["events"].append(["nolog", r["setup"], r["inst"], r["seed"],
                              r["best_f"], r["fes"]])
        res["states"].append(f"nolog|{r['setup']}|{r['inst']}|{bi}")
    if n_nolog:
        core.bump(res["probes"], "surrogate_runs_without_log", n_nolog)

    # ---------------------------------------------------------------- disk state
    for rel, job in maybe.items():
        if rel not in expected and os.path.exists(os.path.join(base, rel)):
            expected[rel] = job
    logs: dict = {}
    torn_readable: dict = {}
    incomplete = []
    for rel, (s, i, seed) in sorted(expected.items()):
        p = os.path.join(base, rel)
        if not os.path.exists(p):
            core.violation(res, "run-missing-after-restart",
                           f"{rel} was never created although the last boot "
                           f"ran without faults")
            return
        with open(p, encoding="utf-8") as f:
            text = f.read()
        try:
            rec = jobs.record_from_log_text(text)
            if rel in torn:
                # cut exactly at a section boundary: looks complete to a
                # reader but later sections may be missing
                incomplete.append(rel)
                torn_readable[rel] = rec
            else:
                logs[rel] = (rec, text)
        except ValueError:
            incomplete.append(rel)
    # a run in flight at a crash (and only that) may be lost; files the
    # fake peer claimed and never completed stay empty
    allowed = crashes + len(claimed)
    if len(incomplete) > allowed:
        core.violation(res, "incomplete-logs-without-crash",
                       f"{len(incomplete)} incomplete log files "
                       f"{incomplete[:4]} but only {crashes} crashes and "
                       f"{len(claimed)} open peer claims")
        return
    if incomplete:
        core.bump(res["probes"], "torn_or_empty_log_rejected",
                  len(incomplete))
    if crashes and len(boots) > 1:
        core.bump(res["probes"], "restart_completed_rest")

    # ---------------------------------------------------------------- in-process vs. log, history
    seq_by_boot: dict = {}
    ran_files = set()
    for bi, r in events:
        if r["e"] != "run":
            continue
        rel = r["file"]
        ran_files.add(rel)
        before = seq_by_boot.setdefault(bi, [])
        if rel in expected:
            s, i, seed = expected[rel]
            if not before:
                core.bump(res["probes"], "job_first_in_interpreter")
            elif expected.get(before[-1], (None,))[0] == s and \
                    expected.get(before[-1], (None, None))[1] == i:
                core.bump(res["probes"], "job_after_same_execution")
            else:
                core.bump(res["probes"], "job_after_other_setup")
            res["states"].append(f"{rel}|{tuple(before)}|{bi}|"
                                 f"{bi > 0 and crashes > 0}")
        before.append(rel)
        if rel in logs:
            rec = logs[rel][0]
            if r["best_f"] != rec["best_f"] or str(r["fes"]) != rec[
                    "total_fes"] or _norm(r["y"]) != _norm(rec["y"]):
                core.violation(
                    res, "inprocess-result-differs-from-log",
                    f"{rel}: process reported bestF={r['best_f']} FEs="
                    f"{r['fes']} y={r['y'][:120]!r}, log holds bestF="
                    f"{rec['best_f']} FEs={rec['total_fes']} y="
                    f"{rec['y'][:120]!r}")
                return
    multi_boot_dirs = len([b for b in seq_by_boot if seq_by_boot[b]]) >= 2
    if multi_boot_dirs:
        core.bump(res["probes"], "second_round_finds_files")
    for rel in list(claimed) + [r["file"] for _, r in events
                                if r["e"] == "peer_completed"]:
        if rel in ran_files:
            core.violation(res, "claimed-run-executed-anyway",
                           f"{rel} was claimed by a peer but the worker ran "
                           f"it too")
            return
        core.bump(res["probes"], "job_skipped_peer_claim")

    # ---------------------------------------------------------------- reference + truth
    for rel, (rec, text) in sorted(logs.items()):
        s, i, seed = expected[rel]
        res["ops"] += 1
        where = f"{s} on {i} seed {hex(seed)} budget {budget}"
        if rec["seed"] != str(seed):
            core.violation(res, "wrong-seed-in-log",
                           f"{where}: log says randSeed={rec['seed']}")
            return
        ref = _reference({"mode": "run", "setup": s, "inst": i,
                          "seed": seed, "budget": budget}, res)
        if ref is None:
            return
        rr = ref["record"]
        for field in ("best_f", "total_fes", "last_improvement_fe", "y", "x",
                      "progress", "objective", "algorithm", "f_lower",
                      "f_upper", "best_fs", "archive", "archive_qualities"):
            if rec[field] != rr[field]:
                core.violation(
                    res, "run-differs-from-history-free-reference",
                    f"{where}: field {field}: experiment log has "
                    f"{str(rec[field])[:200]!r}, a single fresh run gives "
                    f"{str(rr[field])[:200]!r}", field=field, domain=dom)
                return
        if not _truth(dom, s, i, rec, budget, res, where):
            return
        res["events"].append(["job", rel, rec["best_f"], rec["total_fes"],
                              core.digest(rec["y"])[:12]])

    # ---------------------------------------------------------------- parse-back (bin packing)
    by_seed: dict = {}
    bad_at_eval: list = []
    good_at_eval: list = []
    for bi, r in events:
        if r["e"] == "disk":
            bad_at_eval = r["incomplete"]
            good_at_eval = r.get("complete", [])
        if r["e"] == "from_logs":
            core.bump(res["probes"], "evaluate_from_logs")
            core.bump(res["faults"], "listing_permuted")
            if "raised" in r and not bad_at_eval:
                core.violation(res, "from_logs-raised",
                               f"from_logs over a directory of complete "
                               f"logs raised {r['raised']}")
                return
            if "order" in r:
                # when the directory evaluation returns, it must deliver
                # every completed run that is on disk (raising because of
                # an empty/torn file is fine, silently dropping runs is not)
                want_set = sorted(os.path.basename(q) for q in good_at_eval)
                if sorted(r["order"]) != want_set:
                    missing = sorted(set(want_set) - set(r["order"]))
                    core.violation(
                        res, "from_logs-result-set-wrong",
                        f"from_logs returned {len(r['order'])} results for "
                        f"{len(want_set)} completed logs on disk "
                        f"({len(bad_at_eval)} incomplete files present); "
                        f"missing {missing[:4]}")
                    return
        if r["e"] == "from_logs_other":
            core.bump(res["probes"], "evaluate_with_other_bounds")
            if "raised" in r and not bad_at_eval:
                core.violation(res, "from_logs-raised",
                               f"from_logs with other bound calculators over "
                               f"complete logs raised {r['raised']}")
                return
            for iname, bb in r.get("bounds", []):
                want_b = None
                for iid in doc["instances"]:
                    dd = _inst_data(iid)
                    if dd.get("name") == iname:
                        area = sum(it[0] * it[1] * it[2]
                                   for it in dd["items"])
                        want_b = {"bins.lowerBound.area": -(-area // (
                            dd["W"] * dd["H"]))}
                if want_b is not None and bb != want_b:
                    core.violation(
                        res, "parsed-bin-bound-untrue",
                        f"from_logs with the bound calculators "
                        f"{sorted(want_b)} delivered {bb} for {iname} "
                        f"(expected {want_b}); the directory had been "
                        f"evaluated with the default calculators before in "
                        f"the same process")
                    return
        if r["e"] != "parsed":
            continue
        rel = r["file"]
        if rel not in expected:
            continue
        complete_now = rel in logs and rel not in bad_at_eval
        returned = "objectives" in r or "packing" in r
        if not complete_now:
            # a torn/empty file: raising is fine; a returned result must
            # still be the true one (history-free reference of that job)
            if returned:
                s0, i0, seed0 = expected[rel]
                ref0 = _reference({"mode": "run", "setup": s0, "inst": i0,
                                   "seed": seed0, "budget": budget}, res)
                if ref0 is None:
                    return
                if ("packing" in r and _norm(r["packing"]) != _norm(
                        ref0["record"]["y"])) or (
                        "best_f" in r
                        and r["best_f"] != ref0["record"]["best_f"]):
                    core.violation(
                        res, "torn-log-yields-wrong-result",
                        f"{rel} was incomplete on disk and parsing returned "
                        f"a result that is not the run's: {str(r)[:300]}")
                    return
            continue
        # the file was complete when this evaluation ran: both parsers must
        # return a result for it
        if "single_raised" in r or "packing_raised" in r:
            core.violation(
                res, "parse-back-raised-on-complete-log",
                f"{rel} is a complete log but "
                f"{'from_single_log' if 'single_raised' in r else 'Packing.from_log'}"
                f" raised {r.get('single_raised') or r.get('packing_raised')}")
            return
        if not returned:
            continue
        rec = logs[rel][0]
        if "packing" in r:
            if _norm(r["packing"]) != _norm(rec["y"]):
                core.violation(res, "parsed-packing-differs",
                               f"{rel}: Packing.from_log gives "
                               f"{r['packing'][:200]!r}, log holds "
                               f"{rec['y'][:200]!r}")
                return
        if "objectives" in r:
            from simkit.oracles import packing as porc
            s, i, seed = expected[rel]
            d = _inst_data(i)
            vals = [int(v) for v in rec["y"].replace("\n", ";").split(";")]
            rows = [vals[k:k + 6] for k in range(0, len(vals), 6)]
            for oname, fn in porc.OBJECTIVES.items():
                want = fn(d["W"], d["H"], d["items"], rows)
                got = r["objectives"].get(oname)
                lo = r["objective_bounds"].get(f"{oname}.lowerBound")
                hi = r["objective_bounds"].get(f"{oname}.upperBound")
                if got != want or lo is None or hi is None \
                        or not lo <= got <= hi:
                    core.violation(
                        res, "parsed-objective-differs",
                        f"{rel}: PackingResult has {oname}={got} in "
                        f"[{lo},{hi}], the logged packing gives {want}")
                    return
            oname = s.split(":")[2]
            if str(r["objective_bounds"].get(f"{oname}.lowerBound")) != \
                    rec["f_lower"] or str(r["objective_bounds"].get(
                        f"{oname}.upperBound")) != rec["f_upper"] \
                    or r["best_f"] != rec["best_f"] \
                    or str(r["total_fes"]) != rec["total_fes"]:
                core.violation(
                    res, "parsed-objective-differs",
                    f"{rel}: parsed bounds/bestF/FEs "
                    f"{r['objective_bounds'].get(f'{oname}.lowerBound')}/"
                    f"{r['objective_bounds'].get(f'{oname}.upperBound')}/"
                    f"{r['best_f']}/{r['total_fes']} differ from the log "
                    f"{rec['f_lower']}/{rec['f_upper']}/{rec['best_f']}/"
                    f"{rec['total_fes']}")
                return
            if r["bin_bounds"].get("bins.lowerBound") != d["lb"] or \
                    r["n_items"] != sum(it[2] for it in d["items"]) or \
                    r["bin_width"] != d["W"] or r["bin_height"] != d["H"]:
                core.violation(res, "parsed-objective-differs",
                               f"{rel}: instance features/bounds in the "
                               f"PackingResult do not match the instance")
                return
            # every bound on the number of bins in the record must be one:
            # the area bound is what its definition says, and no bound may
            # exceed the bins of the (feasible) packing of that very record
            area = sum(it[0] * it[1] * it[2] for it in d["items"])
            geo = -(-area // (d["W"] * d["H"]))
            used = max(row[1] for row in rows)
            bb = r["bin_bounds"]
            bad_bound = [k for k, v in bb.items()
                         if not isinstance(v, int) or v < 1 or v > used]
            if bb.get("bins.lowerBound.geometric") != geo or bad_bound:
                core.violation(
                    res, "parsed-bin-bound-untrue",
                    f"{rel}: bin bounds {dict(bb)}; the item area needs "
                    f"{geo} bins and the logged packing uses {used}")
                return
        key = (bi, r["listing_seed"])
        by_seed.setdefault(key, {})[rel] = core.digest(
            [r.get("objectives"), r.get("packing")])
    per_boot: dict = {}
    for (bi, ls), m in by_seed.items():
        per_boot.setdefault(bi, []).append(m)
    for bi, ms in per_boot.items():
        for m in ms[1:]:
            if m != ms[0]:
                core.violation(res, "parsed-results-depend-on-listing-order",
                               f"boot {bi}: two evaluations of the same "
                               f"directory under different listing orders "
                               f"differ")
                return
    n_run_events = sum(1 for _, r in events
                       if r["e"] in ("run", "nolog_run"))
    res["nontrivial"] = n_run_events >= 2 or multi_boot_dirs


# ------------------------------------------------------------------ shrinking

def reductions(doc: dict):
    boots = doc["boots"]
    if len(boots) > 1:
        for cand in core.list_deletions(boots, 1):
            if cand and cand[-1].get("crash") is None:
                yield {**doc, "boots": cand}
    if len(doc["instances"]) > 1:
        for cand in core.list_deletions(doc["instances"], 1):
            yield {**doc, "instances": cand}
    if len(doc["setups"]) > 1:
        for cand in core.list_deletions(doc["setups"], 1):
            yield {**doc, "setups": cand}
    for bi, b in enumerate(boots):
        if b.get("crash") is not None and bi < len(boots) - 1:
            nb = list(boots)
            nb[bi] = {**b, "crash": None}
            yield {**doc, "boots": nb}
        if len(b["actions"]) > 1:
            for cand in core.list_deletions(b["actions"], 1):
                if any(a["a"] == "run" for a in cand) or bi < len(boots) - 1:
                    nb = list(boots)
                    nb[bi] = {**b, "actions": cand}
                    yield {**doc, "boots": nb}
        for ai, a in enumerate(b["actions"]):
            if a["a"] == "run":
                simple = {**a, "n_runs": [1], "warmup": False,
                          "pre_warmup": False}
                if simple != a:
                    nb = list(boots)
                    acts = list(b["actions"])
                    acts[ai] = simple
                    nb[bi] = {**b, "actions": acts}
                    yield {**doc, "boots": nb}
        if b["clock"] != {"mode": "fixed", "tick": 1000}:
            nb = list(boots)
            nb[bi] = {**b, "clock": {"mode": "fixed", "tick": 1000}}
            yield {**doc, "boots": nb}
    for v in (20, 40, 100):
        if v < doc["budget"] and doc["domain"] not in ("dc", "instgen"):
            yield {**doc, "budget": v}
