"""C06 - TSP (1+1) EA / FEA under a scripted process: true tour lengths at hand-over."""
from __future__ import annotations

import random

from simkit import core
from simkit.oracles import tsp as orc

PROPERTY = "C06"
SIM_TIME_UNIT = "moves served by the simulated process"
STATE_MEASURE = ("distinct (algorithm, n, storage dtype, digest of the sequence of "
                 "move classes and accept/reject outcomes) tuples")
RULE = (
    "Scenario = a symmetric distance matrix (generated with ties/zeros and "
    "magnitudes placing the instance dtype on int8/16/32/64 incl. the exact "
    "boundaries, or a shipped TSPLIB instance), a start tour, and either "
    "(stub mode) a scripted random stream of index draws biased to the edge "
    "classes i=0, j=n-2, i=j, (0,n-2), adjacent, repeated, served by a simulated "
    "Process that cancels at a scripted poll count, or (real mode) moptipy's real "
    "process with seed and FE budget, observed through a forwarding proxy. Every "
    "register()/evaluate() hand-over is checked with exact integer arithmetic; the "
    "FEA frequency table is allocated by a simulator-owned allocator with a guard "
    "band. Non-trivial = at least two moves were applied to the shared tour; "
    "distinct = distinct scenario-document digests."
    " Runs of a scenario may be simultaneous solve() calls in real threads released at should_terminate() polls by the scenario's schedule; the caller may re-use the matrix buffer it handed to the Instance constructor, offer arrays derived from an instance, or enter solve() on a process whose budget a first stage used up.")
COMPONENTS = {
    "real": ["TSPEA1p1revn.solve + rev_if_not_worse (njit)",
             "TSPFEA1p1revn.solve + rev_if_h_not_worse (njit)",
             "tsp.Instance constructor (dtype, bounds), TourLength (real mode)",
             "moptipy Permutations.standard(n).create (solution buffer dtype)",
             "real mode: moptipy Execution/_ProcessNoSS, PCG64 stream"],
    "stub": ["stub mode: the Process (random stream, should_terminate, register, "
             "evaluate, create)",
             "the allocator behind np.zeros in fea1p1_revn (guard-banded table)"],
}
ASSUMPTIONS = [
    "tour lengths are recomputed with Python integers from the generator's matrix",
    "the FEA table guard band (>= 4 x the largest distance + 1024 entries on the "
    "high side, which also receives wrapped negative indices) catches every "
    "address outside [0, upper bound] whose error is smaller than the band",
    "numba, numpy, moptipy are trusted",
    "seeded search: a clean batch is evidence, not proof",
]
FAULT_KINDS = ["same_name_other_instance", "fea_do_log_h",
               "caller_reuses_matrix_buffer", "derived_instance_object",
               "concurrent_runs_on_one_algorithm_object",
               "create_returns_garbage", "algorithm_object_reused", "warm_start:full", "warm_start:wrapper", "via:for_fes",
               "via:from_starting_point", "via:after_exhausted_stage",
               "cancel:before_first_move", "cancel:mid_run", "draw:i0",
               "draw:jmax", "draw:equal", "draw:full_reversal",
               "draw:adjacent", "draw:repeat", "draw:uniform"]
PROBES = ["ea_accepted_equal", "ea_accepted_better", "ea_rejected",
          "fea_accepted_longer", "fea_rejected", "i0_branch_applied",
          "skipped_equal", "skipped_full_reversal", "n_le_3_spin",
          "dtype:int8", "dtype:int16", "dtype:int32", "dtype:int64",
          "mode:stub", "mode:real", "shipped_instance", "algo:ea", "algo:fea"
          ]
HARD_CAP_S = 60.0
CHUNK = 16
SHIPPED = ["burma14", "ulysses16", "gr17", "gr21", "cn11", "ulysses22", "gr24",
           "fri26"]


def plan(tier: str) -> list:
    if tier == "quick":
        return [{"name": "stub", "n": 27000, "max_n": 12, "max_moves": 200,
                 "mode": "stub"},
                {"name": "real", "n": 3000, "max_n": 12, "max_moves": 200,
                 "mode": "real"},
                {"name": "longreal", "n": 48, "max_n": 12, "max_moves": 200,
                 "mode": "real", "long": True},
                {"name": "longstub", "n": 32, "max_n": 12, "max_moves": 200,
                 "mode": "stub", "long": True}]
    return [{"name": "stub", "n": 800000, "max_n": 40, "max_moves": 2000,
             "mode": "stub"},
            {"name": "real", "n": 100000, "max_n": 40, "max_moves": 2000,
             "mode": "real"},
            {"name": "longreal", "n": 3000, "max_n": 40, "max_moves": 2000,
             "mode": "real", "long": True},
            {"name": "longstub", "n": 1500, "max_n": 40, "max_moves": 2000,
             "mode": "stub", "long": True}]


def warmup() -> None:
    for doc in directed("quick"):
        execute(doc)


# ------------------------------------------------------------------ generation

def gen_matrix(rng: random.Random, n: int, fea: bool) -> list:
    cls = rng.choice(["tiny", "small", "ties", "i8", "i16", "i32", "big",
                      "uniform"])
    if cls == "uniform":
        # all distances equal: every tour has length = upper bound
        d = rng.choice([1, 1, 2, 7, max(1, 127 // n), max(1, 32767 // n)])
        return [[0 if i == j else d for j in range(n)] for i in range(n)]
    if fea and cls == "big":
        cls = "i16"
    if cls == "tiny":
        hi = 3
    elif cls == "small":
        hi = 30
    elif cls == "ties":
        hi = 2
    elif cls == "i8":
        hi = max(1, 127 // n)
    elif cls == "i16":
        hi = max(1, 32767 // n)
    elif cls == "i32":
        hi = max(1, (2000000 if fea else 2147483647) // n)
    else:
        hi = 10 ** 12 // n
    m = [[0] * n for _ in range(n)]
    for i in range(n):
        for j in range(i + 1, n):
            r = rng.random()
            if r < 0.15:
                v = 0
            elif r < 0.3:
                v = hi
            else:
                v = rng.randint(0, hi)
            m[i][j] = m[j][i] = v
    for i in range(n):   # one positive entry per row
        if max(m[i]) <= 0:
            j = (i + 1) % n
            m[i][j] = m[j][i] = rng.randint(1, hi)
    if cls in ("i8", "i16", "i32") and rng.random() < 0.7:
        # push the upper bound exactly onto / next to the dtype limit
        T = {"i8": 127, "i16": 32767, "i32": 2147483647}[cls]
        if not (fea and cls == "i32"):
            target = T + rng.choice([-1, 0, 1, 2])
            for _ in range(4):
                _, ub = orc.bounds(m)
                diff = target - ub
                if diff == 0:
                    break
                # change the largest entry of row 0 (and its mirror)
                j = max(range(1, n), key=lambda q: m[0][q])
                nv = m[0][j] + diff
                if nv < 1:
                    break
                m[0][j] = m[j][0] = nv
    return m


def gen_draws(rng: random.Random, n: int, n_moves: int) -> tuple[list, dict]:
    draws = []
    kinds: dict = {}
    hi = max(0, n - 2)
    prev = None
    for _ in range(n_moves):
        r = rng.random()
        if r < 0.12:
            i, j, k = 0, rng.randint(0, hi), "draw:i0"
        elif r < 0.24:
            i, j, k = rng.randint(0, hi), hi, "draw:jmax"
        elif r < 0.30:
            i = rng.randint(0, hi)
            j, k = i, "draw:equal"
        elif r < 0.36:
            i, j, k = 0, hi, "draw:full_reversal"
        elif r < 0.48:
            i = rng.randint(0, max(0, hi - 1))
            j, k = min(hi, i + 1), "draw:adjacent"
        elif r < 0.58 and prev is not None:
            i, j, k = prev[0], prev[1], "draw:repeat"
        else:
            i, j, k = rng.randint(0, hi), rng.randint(0, hi), "draw:uniform"
        if rng.random() < 0.5:
            i, j = j, i
        draws.extend([i, j])
        prev = (i, j)
        kinds[k] = kinds.get(k, 0) + 1
    return draws, kinds


def generate(rng: random.Random, batch: dict, depth: int = 0) -> dict:
    doc = _generate(rng, batch)
    if depth == 0 and "matrix" in doc["inst"] and not batch.get("long") \
            and rng.random() < 0.2:
        twin = _generate(rng, batch)
        if "matrix" in twin["inst"]:
            twin["algo"] = doc["algo"]
            if doc["algo"] == "fea":
                # keep the twin's table small enough for the FEA
                lb, ub = orc.bounds(twin["inst"]["matrix"])
                if ub > 3_000_000:
                    twin = None
            if twin is not None:
                doc["twin"] = twin
    return doc


def _generate(rng: random.Random, batch: dict) -> dict:
    algo = rng.choice(["ea", "fea"])
    mode = batch["mode"]
    if rng.random() < 0.05:
        name = rng.choice(SHIPPED)
        inst = {"resource": name}
        n = _resource_n(name)
    else:
        n = rng.choice([2, 3, 4, 4, 5, 5, 6, 7, 8, 9, 10, 11, 12]
                       + ([16, 24, 40] if batch["max_n"] >= 40 else []))
        if mode == "real":
            # with n <= 3 no legal move exists, so a run under an FE budget
            # never consumes its budget (not part of the property)
            n = max(n, 4)
        inst = {"matrix": gen_matrix(rng, n, algo == "fea")}
    doc = {"algo": algo, "inst": inst, "mode": mode}
    if "matrix" in inst and not batch.get("long") and rng.random() < 0.08:
        # what the caller does with its own objects around the constructor
        r = rng.random()
        if r < 0.6:
            inst["caller"] = {"src": rng.choice(["auto", "auto", "int64",
                                                 "int32", "fortran",
                                                 "float32", "float64"]),
                              "reuse": rng.choice(["scale", "zero"])}
            if inst["caller"]["src"] == "float32" and algo == "ea":
                # whole numbers that float32 holds exactly, but whose sums
                # it does not: bounds must be computed in exact arithmetic
                m = [[0] * n for _ in range(n)]
                for i in range(n):
                    for j in range(i + 1, n):
                        m[i][j] = m[j][i] = rng.randint(2 ** 23, 2 ** 24 - 1)
                inst["matrix"] = m
        else:
            inst["caller"] = {"derive": rng.choice(["scaled", "edited",
                                                    "copy"])}
    if algo == "fea" and rng.random() < 0.3:
        doc["do_log_h"] = True
    if mode == "stub" and rng.random() < 0.2:
        doc["create_garbage"] = rng.getrandbits(30)
    if mode == "stub":
        perm = list(range(n))
        rng.shuffle(perm)
        n_moves = rng.choice([0, 1, 2, 3, 5, 10, 30, batch["max_moves"]])
        draws, _ = gen_draws(rng, n, n_moves)
        r = rng.random()
        if r < 0.08:
            stop = 0
        elif r < 0.3:
            stop = rng.randint(0, max(1, n_moves))
        else:
            stop = n_moves + 1
        if batch.get("long"):
            # the scripted stream is followed by a seeded one: long runs
            stop = rng.randint(17000, 40000)
        doc.update({"start_perm": perm, "draws": draws,
                    "stop_after_polls": stop})
        if rng.random() < 0.3:
            # the process already knows a best solution (the algorithm is
            # used as a local search / after another algorithm); "wrapper"
            # mimics moptipy's sub-process wrappers, which forward only
            # get_copy_of_best_x
            wt = list(range(n))
            rng.shuffle(wt)
            doc["warm"] = {"tour": wt,
                           "y_copy": rng.choice(["full", "wrapper"])}
        if rng.random() < 0.25:
            more = []
            for _ in range(rng.choice([1, 2, 3])):
                p2 = list(range(n))
                rng.shuffle(p2)
                d2, _ = gen_draws(rng, n, rng.choice([1, 3, 10, 30]))
                more.append({"start_perm": p2, "draws": d2,
                             "stop_after_polls": len(d2) // 2 + 1})
            doc["more_runs"] = more
            if rng.random() < 0.4 and not batch.get("long"):
                # the runs happen at the same time (threads sharing the
                # algorithm object), interleaved as this schedule says
                doc["concurrent"] = {"schedule": [
                    rng.randrange(len(more) + 1)
                    for _ in range(rng.choice([3, 10, 40]))]}
    else:
        if rng.random() < 0.25:
            doc["more_runs"] = [{"seed": rng.getrandbits(48)}
                                for _ in range(rng.choice([1, 2]))]
        doc.update({"seed": rng.getrandbits(48),
                    "max_fes": rng.randint(17000, 40000)
                    if batch.get("long") else rng.choice(
                        [1, 2, 3, 10, 50, batch["max_moves"]]),
                    "via": rng.choice(["plain", "plain", "for_fes",
                                       "from_starting_point",
                                       "after_exhausted_stage"])})
    return doc


_RES_N: dict = {}


def _resource_n(name: str) -> int:
    if name not in _RES_N:
        from moptipyapps.tsp.instance import Instance
        _RES_N[name] = int(Instance.from_resource(name).n_cities)
    return _RES_N[name]


def directed(tier: str) -> list:
    m5 = [[0, 3, 4, 2, 7], [3, 0, 4, 6, 3], [4, 4, 0, 5, 8],
          [2, 6, 5, 0, 6], [7, 3, 8, 6, 0]]
    docs = []
    for algo in ("ea", "fea"):
        docs.append({"algo": algo, "inst": {"matrix": m5}, "mode": "stub",
                     "start_perm": [2, 0, 4, 1, 3],
                     "draws": [0, 1, 1, 3, 3, 0, 2, 2, 0, 3, 3, 1, 1, 2, 2, 3,
                               0, 2, 0, 1, 1, 3, 1, 3],
                     "stop_after_polls": 99})
        docs.append({"algo": algo, "inst": {"matrix": m5}, "mode": "stub",
                     "start_perm": [0, 1, 2, 3, 4], "draws": [0, 1],
                     "stop_after_polls": 0})
        docs.append({"algo": algo, "inst": {"matrix": [[0, 1], [1, 0]]},
                     "mode": "stub", "start_perm": [1, 0],
                     "draws": [0, 0, 0, 0], "stop_after_polls": 5})
        docs.append({"algo": algo,
                     "inst": {"matrix": [[0, 1, 2], [1, 0, 3], [2, 3, 0]]},
                     "mode": "stub", "start_perm": [1, 0, 2],
                     "draws": [0, 1, 1, 0, 1, 1], "stop_after_polls": 9})
        docs.append({"algo": algo, "inst": {"resource": "burma14"},
                     "mode": "real", "seed": 12345, "max_fes": 100})
        docs.append({"algo": algo, "inst": {"matrix": m5}, "mode": "real",
                     "seed": 7, "max_fes": 60})
        for via in ("for_fes", "from_starting_point"):
            docs.append({"algo": algo, "inst": {"resource": "gr17"},
                         "mode": "real", "seed": 99, "max_fes": 80,
                         "via": via})
        for yc in ("full", "wrapper"):
            docs.append({"algo": algo, "inst": {"matrix": m5},
                         "mode": "stub", "start_perm": [2, 0, 4, 1, 3],
                         "draws": [0, 1, 1, 3, 3, 0, 2, 2, 0, 3, 3, 1],
                         "stop_after_polls": 99,
                         "warm": {"tour": [4, 3, 2, 1, 0], "y_copy": yc}})
    return docs


# ------------------------------------------------------------------ execution

class _Stop(Exception):
    pass


def _build(doc, name: str = "sim"):
    import numpy as np
    from moptipyapps.tsp.instance import Instance
    inst_doc = doc["inst"]
    if "resource" in inst_doc:
        inst = Instance.from_resource(inst_doc["resource"])
        matrix = [[int(v) for v in row] for row in np.asarray(inst)]
    else:
        matrix = [[int(v) for v in row] for row in inst_doc["matrix"]]
        caller = inst_doc.get("caller") or {}
        inst = Instance(name, 0, np.array(matrix, dtype=np.int64))
        if "src" in caller:
            # the caller hands over a buffer of its own (possibly already of
            # the type and layout the instance stores) and re-uses it later
            dt = {"auto": inst.dtype, "int64": np.int64,
                  "int32": np.int32, "fortran": inst.dtype,
                  "float32": np.float32, "float64": np.float64}[
                      caller["src"]]
            biggest = max(max(r) for r in matrix)
            if np.issubdtype(dt, np.floating):
                # whole numbers that the type represents exactly
                if biggest >= 2 ** (24 if dt == np.float32 else 53):
                    dt = np.int64
            elif biggest > np.iinfo(dt).max:
                dt = np.int64
            src = np.array(matrix, dtype=dt,
                           order="F" if caller["src"] == "fortran" else "C")
            inst = Instance(name, 0, src)
            if caller["reuse"] == "scale":
                src *= 3
            else:
                src.fill(0)
        elif "derive" in caller and len(matrix) >= 2:
            # objects numpy derives from an instance are of type Instance,
            # too; whatever the algorithms accept must satisfy the property
            # for the distances that object really holds
            if caller["derive"] == "scaled":
                inst = inst * 3
            elif caller["derive"] == "edited":
                inst = inst.copy()
                big = 5 * int(max(max(r) for r in matrix)) + 7
                inst[0, 1] = inst[1, 0] = min(big, int(
                    np.iinfo(inst.dtype).max))
            else:
                inst = inst.copy()
            matrix = [[int(v) for v in row] for row in np.asarray(inst)]
    return inst, matrix


class _GuardAlloc:
    """Stands in for the module-level `np` of fea1p1_revn: owns the allocator."""

    def __init__(self, real_np, guard: int):
        self._np = real_np
        self.guard = guard
        self.tables = []

    def __getattr__(self, name):
        return getattr(self._np, name)

    def zeros(self, size, dtype=None):
        arr = self._np.zeros(int(size) + self.guard, dtype)
        self.tables.append((int(size), arr))
        return arr


def execute(doc: dict) -> dict:
    """One scenario = one or more runs on ONE algorithm object (history),
    optionally followed by the same on a twin: a different instance that
    carries the SAME name (state keyed by the name must not leak)."""
    from simkit.engines import packgen
    name = packgen.scenario_name(doc, "t")
    total = _execute_runs(doc, name)
    twin = doc.get("twin")
    if twin is not None and total["violation"] is None:
        r2 = _execute_runs(twin, name)
        total["events"].append(["twin"])
        total["events"].extend(r2["events"])
        for key in ("faults", "probes"):
            for k, v in r2[key].items():
                total[key][k] = total[key].get(k, 0) + v
        total["states"].extend(r2["states"])
        total["ops"] += r2["ops"]
        total["sim_time"] += r2["sim_time"]
        total["nontrivial"] = total["nontrivial"] or r2["nontrivial"]
        core.bump(total["faults"], "same_name_other_instance")
        if r2["violation"] is not None:
            total["violation"] = r2["violation"]
            total["violation"]["in_twin"] = True
    return total


class _Baton:
    """Real threads, one of which runs at any time: at every yield point the
    schedule of the scenario document says who continues."""

    def __init__(self, n: int, schedule: list) -> None:
        import threading
        self.cv = threading.Condition()
        self.n = n
        self.turn = 0
        self.alive = set(range(n))
        self.sched = [int(v) % n for v in schedule]
        self.pos = 0
        self.switches = 0

    def _wait_for(self, me: int) -> None:
        while self.turn != me:
            if not self.cv.wait(timeout=HARD_CAP_S):
                raise RuntimeError("baton lost: harness bug")

    def start(self, me: int) -> None:
        with self.cv:
            self._wait_for(me)

    def yield_point(self, me: int) -> None:
        with self.cv:
            nxt = me
            if self.pos < len(self.sched):
                nxt = self.sched[self.pos]
                self.pos += 1
            if nxt not in self.alive:
                nxt = me
            if nxt != me:
                self.switches += 1
                self.turn = nxt
                self.cv.notify_all()
                self._wait_for(me)

    def done(self, me: int) -> None:
        with self.cv:
            self.alive.discard(me)
            if self.alive and self.turn == me:
                self.turn = min(self.alive)
            self.cv.notify_all()


def _execute_concurrent(runs: list, shared: dict) -> list:
    """The runs of one scenario as simultaneous solve() calls on ONE algorithm
    object (caller threads sharing it); switches happen at the processes'
    should_terminate() polls, as the schedule of the document says."""
    import threading

    import numpy as np
    import moptipyapps.tsp.fea1p1_revn as fea_mod
    baton = _Baton(len(runs), runs[0]["concurrent"]["schedule"])
    shared["baton"] = baton
    out: list = [None] * len(runs)
    # one allocator seam for all of them (installed once, not per run)
    shared["alloc"] = _GuardAlloc(np, 400_000)
    old_np = fea_mod.np
    fea_mod.np = shared["alloc"]

    def body(i: int) -> None:
        try:
            baton.start(i)
            out[i] = _execute_single({**runs[i], "_run_id": i}, shared)
        except BaseException as exc:  # noqa: BLE001
            out[i] = exc
        finally:
            baton.done(i)
    threads = [threading.Thread(target=body, args=(i, ), daemon=True)
               for i in range(len(runs))]
    try:
        for t in threads:
            t.start()
        for t in threads:
            t.join(HARD_CAP_S)
    finally:
        fea_mod.np = old_np
    for o in out:
        if isinstance(o, BaseException):
            raise o
        if o is None:
            raise RuntimeError("a concurrent run did not finish: harness bug")
    core.bump(out[0]["faults"], "concurrent_runs_on_one_algorithm_object")
    if baton.switches >= 2:
        core.bump(out[0]["probes"], "thread_switches>=2")
    return out


def _execute_runs(doc: dict, name: str) -> dict:
    runs = [doc] + [{**{k: v for k, v in doc.items() if k != "more_runs"},
                     **r} for r in doc.get("more_runs", [])]
    shared: dict = {"name": name}
    total = None
    pre = None
    if doc.get("concurrent") and len(runs) >= 2 and doc["mode"] == "stub":
        pre = _execute_concurrent(runs, shared)
    for ri, rdoc in enumerate(runs):
        res = pre[ri] if pre is not None else _execute_single(rdoc, shared)
        if total is None:
            total = res
        else:
            total["events"].append(["run", ri])
            total["events"].extend(res["events"])
            for key in ("faults", "probes"):
                for k, v in res[key].items():
                    total[key][k] = total[key].get(k, 0) + v
            total["states"].extend(res["states"])
            total["ops"] += res["ops"]
            total["sim_time"] += res["sim_time"]
            total["nontrivial"] = total["nontrivial"] or res["nontrivial"]
            if res["violation"] is not None:
                total["violation"] = res["violation"]
                total["violation"]["run"] = ri
        if total["violation"] is not None:
            break
    if len(runs) > 1:
        core.bump(total["faults"], "algorithm_object_reused", len(runs) - 1)
    return total


def _execute_single(doc: dict, shared: dict) -> dict:
    import numpy as np
    from moptipy.spaces.permutations import Permutations
    import moptipyapps.tsp.fea1p1_revn as fea_mod
    from moptipyapps.tsp.ea1p1_revn import TSPEA1p1revn
    from moptipyapps.tsp.fea1p1_revn import TSPFEA1p1revn

    res = core.new_result()
    if "inst" not in shared:
        shared["inst"], shared["matrix"] = _build(
            doc, shared.get("name", "sim"))
    inst, matrix = shared["inst"], shared["matrix"]
    n = len(matrix)
    algo_name = doc["algo"]
    is_fea = algo_name == "fea"
    lb, ub = orc.bounds(matrix)
    core.bump(res["probes"], f"dtype:{inst.dtype}")
    core.bump(res["probes"], f"mode:{doc['mode']}")
    core.bump(res["probes"], f"algo:{algo_name}")
    if "resource" in doc["inst"]:
        core.bump(res["probes"], "shipped_instance")
    caller = doc["inst"].get("caller") or {}
    if "src" in caller:
        core.bump(res["faults"], "caller_reuses_matrix_buffer")
    if "derive" in caller:
        core.bump(res["faults"], "derived_instance_object")
        try:
            int(inst.tour_length_upper_bound), int(inst.n_cities)
            str(inst)
            (TSPFEA1p1revn if is_fea else TSPEA1p1revn)(inst)
        except (AttributeError, TypeError, ValueError):
            # refused: such an object is not an instance for the algorithms
            core.bump(res["probes"], "derived_object_refused")
            res["events"].append(["derived-refused"])
            return res
        core.bump(res["probes"], "derived_object_accepted")
    if int(inst.tour_length_upper_bound) != ub or \
            int(inst.n_cities) != n:
        # C05 territory, but the FEA table clause depends on it
        core.violation(res, "instance-upper-bound",
                       f"instance reports upper bound "
                       f"{inst.tour_length_upper_bound}, generator matrix "
                       f"gives {ub}; matrix={matrix}")
        return res
    if is_fea and ub > 3_000_000:
        raise AssertionError("FEA scenario with huge upper bound: harness bug")
    if "algo" not in shared:
        if is_fea:
            shared["algo"] = TSPFEA1p1revn(inst, bool(doc.get("do_log_h")))
            if doc.get("do_log_h"):
                core.bump(res["faults"], "fea_do_log_h")
        else:
            shared["algo"] = TSPEA1p1revn(inst)
    algo = shared["algo"]
    space = Permutations.standard(n)
    maxd = max(max(r) for r in matrix)
    guard = min(400_000, 4 * maxd + 1024)
    alloc = shared.get("alloc") or _GuardAlloc(np, guard)
    baton = shared.get("baton")
    run_id = int(doc.get("_run_id", 0))

    state = {"pair": [], "cur": None, "cur_len": None, "handovers": 0,
             "polls": 0,
             "pos": 0, "last_move": None, "classes": [], "applied": 0}
    model = {"h": {}}

    def check_handover(x, y, where):
        xs = [int(v) for v in x]
        if not orc.is_permutation(xs, n):
            core.violation(res, "handover-not-a-permutation",
                           f"{where}: x={xs} is not a permutation of 0..{n - 1}"
                           f"; matrix={matrix}")
            raise _Stop
        true = orc.tour_length(matrix, xs)
        if isinstance(y, (bool, float)) or int(y) != true or y != true:
            core.violation(
                res, "handover-wrong-length",
                f"{where}: algorithm handed over y={y!r} for x={xs} whose "
                f"tour length is {true}; last move={state['last_move']}; "
                f"matrix={matrix}", algo=algo_name)
            raise _Stop
        return xs, true

    def on_register(x, y):
        xs, true = check_handover(x, y, f"register #{state['handovers'] + 1}")
        state["handovers"] += 1
        prev, prev_len = state["cur"], state["cur_len"]
        outcome = "?"
        if prev is not None:
            if (not is_fea) and true > prev_len:
                core.violation(
                    res, "ea-replaced-by-longer-tour",
                    f"EA current tour length went from {prev_len} to {true} "
                    f"(x={xs}); last move={state['last_move']}; "
                    f"matrix={matrix}")
                raise _Stop
            mv = state["last_move"]
            if mv is not None:
                i, j = mv
                cand = orc.reversed_segment(prev, i, j)
                cand_len = orc.tour_length(matrix, cand)
                h = model["h"]
                h[prev_len] = h.get(prev_len, 0) + 1
                h[cand_len] = h.get(cand_len, 0) + 1
                if is_fea:
                    expect_accept = h[cand_len] <= h[prev_len]
                else:
                    expect_accept = cand_len <= prev_len
                accepted = xs == cand and xs != prev
                if xs == cand and xs == prev:
                    accepted = expect_accept
                if xs not in (cand, prev) or accepted != expect_accept:
                    core.bump(res["probes"], "model_divergence")
                if accepted:
                    state["applied"] += 1
                    if i == 0:
                        core.bump(res["probes"], "i0_branch_applied")
                    if is_fea:
                        if cand_len > prev_len:
                            core.bump(res["probes"], "fea_accepted_longer")
                    elif cand_len == prev_len:
                        core.bump(res["probes"], "ea_accepted_equal")
                    else:
                        core.bump(res["probes"], "ea_accepted_better")
                    outcome = "A"
                else:
                    core.bump(res["probes"],
                              "fea_rejected" if is_fea else "ea_rejected")
                    outcome = "R"
        state["cur"], state["cur_len"] = xs, true
        state["classes"].append(outcome)
        res["events"].append(["reg", list(state["last_move"] or ()), true,
                              outcome])
        state["last_move"] = None

    if doc["mode"] == "stub":
        draws = [int(v) for v in doc["draws"]]
        start = _norm_perm(doc["start_perm"], n)
        stop_after = int(doc["stop_after_polls"])
        hi = max(1, n - 1)

        fallback = random.Random(len(draws) * 7919 + n)

        def next_draw(bound: int) -> int:
            """The scripted stream; a seeded stream once the script is used up."""
            if state["pos"] < len(draws):
                v = draws[state["pos"]] % bound
            else:
                v = fallback.randrange(bound)
            state["pos"] += 1
            return v

        class SimRandom:
            """Scripted stand-in for numpy.random.Generator."""

            def integers(self, low, high=None, size=None, dtype=np.int64,
                         endpoint=False):
                if high is None:
                    low, high = 0, low
                span = int(high) - int(low) + (1 if endpoint else 0)
                if size is not None:
                    # vectorised draws: the (i, j) bookkeeping of the
                    # reference model no longer applies
                    state["vector_draws"] = True
                    state["last_move"] = None
                    cnt = int(np.prod(size))
                    vals = [int(low) + next_draw(span) for _ in range(cnt)]
                    return np.array(vals, dtype=dtype).reshape(size)
                v = next_draw(span)
                if state.get("vector_draws"):
                    return np.int64(int(low) + v)
                state["pair"].append(v)
                # pair bookkeeping: every second scalar draw completes a move
                if len(state["pair"]) == 2:
                    a, v2 = state["pair"]
                    state["pair"] = []
                    i, j = (a, v2) if a <= v2 else (v2, a)
                    res["ops"] += 1
                    if i == j:
                        core.bump(res["probes"], "skipped_equal")
                        state["last_move"] = None
                    elif i == 0 and j == n - 2:
                        core.bump(res["probes"], "skipped_full_reversal")
                        state["last_move"] = None
                    else:
                        state["last_move"] = (i, j)
                return np.int64(int(low) + v)

            def shuffle(self, x):
                # a scripted permutation of whatever x holds (like a real
                # shuffle: it cannot repair garbage contents)
                cur = np.array(x).copy()
                x[:] = cur[np.array(start, dtype=np.int64)]

            def permutation(self, x):
                return np.array(start, dtype=np.int64) if isinstance(
                    x, (int, np.integer)) else np.array(x)[start]

            def random(self, size=None):
                if size is None:
                    return next_draw(1 << 20) / float(1 << 20)
                cnt = int(np.prod(size))
                return np.array([next_draw(1 << 20) / float(1 << 20)
                                 for _ in range(cnt)]).reshape(size)

            def uniform(self, low=0.0, high=1.0, size=None):
                return low + (high - low) * self.random(size)

        from moptipy.api.process import Process as _MoptipyProcess
        warm = doc.get("warm")
        best = {"x": None, "f": None}
        if warm is not None:
            wt = _norm_perm(warm["tour"], n)
            best["x"], best["f"] = wt, orc.tour_length(matrix, wt)
            core.bump(res["faults"], "warm_start:" + warm["y_copy"])

        def note_best(xs, f):
            if best["f"] is None or f < best["f"]:
                best["x"], best["f"] = list(xs), f

        class SimProcess(_MoptipyProcess):
            """Everything the Process API offers, backed by the simulator."""

            def get_random(self):
                return SimRandom()

            def has_best(self):
                return best["f"] is not None

            def get_best_f(self):
                if best["f"] is None:
                    raise ValueError("no best solution yet")
                return best["f"]

            def get_copy_of_best_x(self, x):
                x[:] = best["x"]

            def get_copy_of_best_y(self, y):
                # real processes copy the best tour; moptipy's sub-process
                # wrappers inherit the empty base method
                if warm is None or warm["y_copy"] == "full":
                    y[:] = best["x"]

            def get_consumed_fes(self):
                return state["handovers"] + 1

            def get_max_fes(self):
                return None

            def get_max_time_millis(self):
                return None

            def get_consumed_time_millis(self):
                return state["polls"]

            def get_last_improvement_fe(self):
                return 1

            def has_log(self):
                return False

            def terminate(self):
                state["polls"] = 10 ** 12

            def create(self):
                # the contents of a new point are undefined by contract:
                # hand out garbage of the right type when asked to
                xnew = space.create()
                g = doc.get("create_garbage")
                if g is not None:
                    rg = random.Random(int(g))
                    kind = rg.choice(["zeros", "random", "reversed", "last"])
                    if kind == "zeros":
                        xnew[:] = 0
                    elif kind == "random":
                        xnew[:] = [rg.randrange(n) for _ in range(n)]
                    elif kind == "reversed":
                        xnew[:] = list(range(n - 1, -1, -1))
                    else:
                        xnew[:] = n - 1
                    core.bump(res["faults"], "create_returns_garbage")
                return xnew

            def evaluate(self, x):
                xs = [int(v) for v in x]
                if not orc.is_permutation(xs, n):
                    core.violation(res, "handover-not-a-permutation",
                                   f"evaluate: x={xs}; matrix={matrix}")
                    raise _Stop
                val = orc.tour_length(matrix, xs)
                state["cur"], state["cur_len"] = xs, val
                res["events"].append(["eval", val])
                note_best(xs, val)
                return val

            def register(self, x, y):
                on_register(x, y)
                if state["cur_len"] is not None:
                    note_best(state["cur"], state["cur_len"])

            def should_terminate(self):
                state["polls"] += 1
                if baton is not None:
                    baton.yield_point(run_id)
                return state["polls"] > stop_after

        proc = SimProcess()
        if baton is None:
            old_np = fea_mod.np
            fea_mod.np = alloc
        try:
            algo.solve(proc)
        except _Stop:
            pass
        except Exception as exc:  # noqa: BLE001
            core.violation(res, "algorithm-raised",
                           f"{type(exc).__name__}: {exc}; matrix={matrix}")
        finally:
            if baton is None:
                fea_mod.np = old_np
        if stop_after == 0:
            core.bump(res["faults"], "cancel:before_first_move")
        elif stop_after * 2 < len(draws):
            core.bump(res["faults"], "cancel:mid_run")
        if n <= 3 and state["polls"] > 1:
            core.bump(res["probes"], "n_le_3_spin")
        # which draw classes were actually served
        served = min(state["pos"] // 2, len(draws) // 2)
        hi2 = max(0, n - 2)
        prev = None
        for k in range(served):
            a, b = draws[2 * k] % hi, draws[2 * k + 1] % hi
            i, j = min(a, b), max(a, b)
            if (i, j) == prev:
                core.bump(res["faults"], "draw:repeat")
            if i == j:
                core.bump(res["faults"], "draw:equal")
            elif i == 0 and j == hi2:
                core.bump(res["faults"], "draw:full_reversal")
            elif i == 0:
                core.bump(res["faults"], "draw:i0")
            elif j == hi2:
                core.bump(res["faults"], "draw:jmax")
            elif j == i + 1:
                core.bump(res["faults"], "draw:adjacent")
            else:
                core.bump(res["faults"], "draw:uniform")
            prev = (i, j)
    else:
        from moptipy.api.algorithm import Algorithm
        from moptipy.api.execution import Execution
        from moptipyapps.tsp.tour_length import TourLength

        from moptipy.api.process import Process as _MoptipyProcess2

        class Proxy(_MoptipyProcess2):
            """A real moptipy Process that forwards everything and watches
            evaluate/register (same idiom as moptipy's own wrappers)."""

            def __init__(self, p):
                super().__init__()
                self._p = p
                for nm in dir(p):
                    if nm.startswith("_") or nm in ("evaluate", "register"):
                        continue
                    attr = getattr(p, nm)
                    if callable(attr):
                        setattr(self, nm, attr)

            def __getattr__(self, name):
                return getattr(self._p, name)

            def evaluate(self, x):
                # (budget used up or goal reached: read without polling,
                # which would tell the process that the algorithm knows)
                spent = int(self._p.get_consumed_fes()) >= int(
                    doc["max_fes"]) or bool(
                        getattr(self._p, "_terminated", False))
                v = self._p.evaluate(x)
                if spent:
                    # the process had ended before this call: moptipy then
                    # answers with the best value it knows, not with the
                    # length of x - that value is the process's, only the
                    # tour is the algorithm's
                    xs = [int(q) for q in x]
                    if not orc.is_permutation(xs, n):
                        core.violation(
                            res, "handover-not-a-permutation",
                            f"evaluate: x={xs}; matrix={matrix}")
                        raise _Stop
                    state["cur"], state["cur_len"] = xs, orc.tour_length(
                        matrix, xs)
                    res["events"].append(["eval-after-budget"])
                    return v
                try:
                    xs, true = check_handover(x, v, "evaluate")
                except _Stop:
                    raise
                state["cur"], state["cur_len"] = xs, true
                res["events"].append(["eval", true])
                return v

            def register(self, x, y):
                res["ops"] += 1
                on_register(x, y)
                return self._p.register(x, y)

        via = doc.get("via", "plain")
        if int(doc["max_fes"]) < 3:
            via = "plain"   # the warm-up evaluation would eat the budget
        if via != "plain":
            core.bump(res["faults"], f"via:{via}")

        class Spy(Algorithm):
            def solve(self, process):
                if via == "plain":
                    algo.solve(Proxy(process))
                    return
                if via == "after_exhausted_stage":
                    # second stage of a sequential hybrid whose first stage
                    # used up the whole budget without ever asking
                    # should_terminate(): the process is terminated, the
                    # algorithm has not been told yet
                    x0 = process.create()
                    x0[:] = range(n)
                    for _ in range(int(doc["max_fes"])):
                        process.get_random().shuffle(x0)
                        process.evaluate(x0)
                    state["cur"], state["cur_len"] = None, None
                    algo.solve(Proxy(process))
                    return
                # the algorithm is applied as a local search to a process
                # that already knows a best solution, through moptipy's
                # real sub-process wrappers (as a memetic algorithm does)
                from moptipy.api.subprocesses import (for_fes,
                                                      from_starting_point)
                x0 = process.create()
                x0[:] = range(n)
                process.get_random().shuffle(x0)
                f0 = process.evaluate(x0)
                state["cur"], state["cur_len"] = None, None
                if process.should_terminate():
                    return  # the warm-up tour already reached the goal
                left = max(1, int(doc["max_fes"]) - 1)
                if via == "for_fes":
                    with for_fes(process, left) as sub:
                        algo.solve(Proxy(sub))
                else:
                    with from_starting_point(process, x0, f0) as s1:
                        with for_fes(s1, left) as sub:
                            algo.solve(Proxy(sub))

            def __str__(self):
                return str(algo)

            def log_parameters_to(self, logger):
                algo.log_parameters_to(logger)

        old_np = fea_mod.np
        fea_mod.np = alloc
        try:
            ex = Execution().set_algorithm(Spy()) \
                .set_objective(TourLength(inst)) \
                .set_solution_space(space) \
                .set_max_fes(int(doc["max_fes"])) \
                .set_rand_seed(int(doc["seed"]))
            with ex.execute() as p:
                best_f = p.get_best_f()
                bx = space.create()
                p.get_copy_of_best_y(bx)
            if res["violation"] is None:
                check_handover(bx, best_f, "final best")
                if int(p.get_consumed_fes()) > int(doc["max_fes"]):
                    core.violation(res, "budget-exceeded",
                                   f"{p.get_consumed_fes()} > {doc['max_fes']}")
        except _Stop:
            pass
        except Exception as exc:  # noqa: BLE001
            if res["violation"] is None:
                core.violation(res, "algorithm-raised",
                               f"{type(exc).__name__}: {exc}; matrix={matrix}")
        finally:
            fea_mod.np = old_np
    # ---- FEA table: nothing outside [0, upper bound] may have been touched
    if is_fea and res["violation"] is None:
        for size, arr in alloc.tables:
            # entries the algorithm may address: inside the table it asked
            # for and not above the instance's upper bound
            first_bad = min(size, ub + 1)
            touched = np.flatnonzero(arr[first_bad:])
            if len(touched) > 0:
                k = int(touched[0]) + first_bad
                total = len(arr)
                core.violation(
                    res, "fea-table-address-out-of-range",
                    f"FEA touched table index {k} (or {k - total} wrapped) "
                    f"with upper bound {ub}, table size requested {size}; "
                    f"matrix={matrix}")
                break
        if not alloc.tables and doc["mode"] == "stub":
            core.bump(res["probes"], "model_divergence")
    res["states"].append(f"{algo_name}|{n}|{inst.dtype}|"
                         f"{core.digest(state['classes'])[:16]}")
    res["sim_time"] = float(res["ops"])
    res["nontrivial"] = state["applied"] >= 2
    return res


def _norm_perm(perm: list, n: int) -> list:
    """Ranks of the first n distinct entries (keeps shrunk documents valid)."""
    vals = [int(v) for v in perm][:n]
    if len(vals) < n or len(set(vals)) != n:
        return list(range(n))
    order = sorted(vals)
    return [order.index(v) for v in vals]


# ------------------------------------------------------------------ shrinking

def reductions(doc: dict):
    if doc.get("twin") is not None:
        yield {k: v for k, v in doc.items() if k != "twin"}
        for cand in reductions(doc["twin"]):
            yield {**doc, "twin": cand}
    if doc.get("do_log_h"):
        yield {k: v for k, v in doc.items() if k != "do_log_h"}
    if doc.get("concurrent"):
        yield {k: v for k, v in doc.items() if k != "concurrent"}
        sch = doc["concurrent"]["schedule"]
        for cand in core.list_deletions(sch, 1):
            yield {**doc, "concurrent": {"schedule": cand}}
    if doc.get("create_garbage") is not None:
        yield {k: v for k, v in doc.items() if k != "create_garbage"}
    if doc.get("more_runs"):
        for cand in core.list_deletions(doc["more_runs"], 0):
            yield {**doc, "more_runs": cand}
    if doc["mode"] == "stub":
        draws = doc["draws"]
        pairs = [draws[k:k + 2] for k in range(0, len(draws) - 1, 2)]
        for cand in core.list_deletions(pairs, 0):
            yield {**doc, "draws": [v for p in cand for v in p]}
    else:
        for v in core.int_shrinks(doc["max_fes"], 1):
            if v >= 1:
                yield {**doc, "max_fes": v}
        for s in (0, 1, 2, 3):
            if doc["seed"] != s:
                yield {**doc, "seed": s}
    inst = doc["inst"]
    if "resource" in inst:
        return
    m = inst["matrix"]
    n = len(m)
    if n > (2 if doc["mode"] == "stub" else 4):
        for c in range(n - 1, -1, -1):
            m2 = [[v for j, v in enumerate(row) if j != c]
                  for i, row in enumerate(m) if i != c]
            if all(max(r) > 0 for r in m2):
                nd = {**doc, "inst": {"matrix": m2}}
                if doc["mode"] == "stub":
                    sp = [v for v in doc["start_perm"] if v != c]
                    nd["start_perm"] = [v - 1 if v > c else v for v in sp]
                yield nd
    # shrink distances
    for i in range(n):
        for j in range(i + 1, n):
            for v in core.int_shrinks(m[i][j], 0):
                if v < 0:
                    continue
                m2 = [list(r) for r in m]
                m2[i][j] = m2[j][i] = v
                if all(max(r) > 0 for r in m2):
                    yield {**doc, "inst": {"matrix": m2}}
                    break
    if doc["mode"] == "stub" and doc["start_perm"] != sorted(doc["start_perm"]):
        yield {**doc, "start_perm": sorted(doc["start_perm"])}
