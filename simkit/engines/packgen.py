"""Shared generators for 2D bin-packing instances (used by C04, C14, C17, C12)."""
from __future__ import annotations

import random

SHIPPED = ["asqas03", "asqas08", "a42", "a04", "a08", "beng01", "cl01_020_01",
           "cl02_020_03", "cl05_020_03", "cl07_020_05", "cl10_020_02", "a01"]

_CACHE: dict = {}


def valid_inst(inst: dict) -> bool:
    W, H = inst["W"], inst["H"]
    if W < 1 or H < 1 or not inst["items"]:
        return False
    mx, mn = max(W, H), min(W, H)
    for w, h, m in inst["items"]:
        if w < 1 or h < 1 or m < 1 or w > mx or h > mx:
            return False
        if w > mn and h > mn:
            return False
    return True


def _gen_item(rng: random.Random, W: int, H: int) -> list:
    mx, mn = max(W, H), min(W, H)
    r = rng.random()
    if r < 0.12:
        w, h = W, H                      # as large as the bin
    elif r < 0.2:
        w, h = H, W                      # as large as the bin, rotated
    elif r < 0.3:
        w, h = 1, rng.randint(1, mx)     # 1 x n
    elif r < 0.4:
        w, h = rng.randint(1, mx), 1
    elif r < 0.55 and W != H:
        # fits only in one orientation
        big = rng.randint(mn + 1, mx)
        small = rng.randint(1, mn)
        w, h = (big, small) if rng.random() < 0.5 else (small, big)
    elif r < 0.75:
        # roughly half / third of the bin
        d = rng.choice([2, 3])
        w = max(1, W // d + rng.choice([-1, 0, 0, 1]))
        h = max(1, H // d + rng.choice([-1, 0, 0, 1]))
    else:
        w, h = rng.randint(1, mx), rng.randint(1, mn)
        if rng.random() < 0.5:
            w, h = h, w
    w, h = min(w, mx), min(h, mx)
    if w > mn and h > mn:
        h = mn
    return [w, h]


def gen_instance(rng: random.Random, big: bool = False,
                 shipped_p: float = 0.08, max_types: int = 6,
                 single_digit_bias: float = 0.0) -> dict:
    r = rng.random()
    if r < shipped_p:
        return {"resource": rng.choice(SHIPPED)}
    r = rng.random()
    boundary = None
    if single_digit_bias and rng.random() < single_digit_bias:
        W, H = rng.randint(2, 9), rng.randint(2, 9)
    elif r < 0.3:
        W, H = rng.randint(1, 6), rng.randint(1, 6)
    elif r < 0.65:
        W, H = rng.randint(1, 30), rng.randint(1, 30)
    elif r < 0.85:
        W, H = rng.randint(1, 200), rng.randint(1, 200)
    else:
        # straddle the dtype choice: max_dim + max_size + 1 around T.
        # (the int32/int64 boundary is out of practical reach: the instance
        # constructor's lower bound is O(min_dim * sum(long/short side)))
        T = rng.choice([127, 127, 127, 32767])
        target = T + rng.choice([-1, 0, 1])       # value of max_dim+max_size+1
        mx = target // 2 + rng.choice([0, 0, 1, 3])
        mx = max(2, min(mx, target - 2))
        max_size = min(mx, target - 1 - mx)
        if T > 127:
            mnd = rng.randint(4, 9)
        else:
            mnd = rng.randint(1, mx) if rng.random() < 0.5 else mx
        W, H = (mx, mnd) if rng.random() < 0.5 else (mnd, mx)
        boundary = max(1, max_size)
    n_types = rng.randint(1, max_types)
    items = []
    for _ in range(n_types):
        w, h = _gen_item(rng, W, H)
        items.append([w, h, 1])
    if boundary is not None:
        # one item whose larger side is exactly the wanted max_size
        mn = min(W, H)
        other = rng.randint(max(1, min(mn, boundary) - 2), min(mn, boundary))
        items[0] = [boundary, other, 1] if rng.random() < 0.5 \
            else [other, boundary, 1]
        for it in items[1:]:
            it[0] = min(it[0], boundary)
            it[1] = min(it[1], boundary)
    if rng.random() < 0.25 and len(items) > 1:
        items[-1][0], items[-1][1] = items[0][0], items[0][1]   # equal items
    cap = 60 if big else 14
    rr = rng.random()
    if rr < (0.04 if big else 0.012):
        # n_items + 1 at the int8 boundary (and beyond: bin ids and the index
        # windows of encoding 2 must hold counts up to n_items)
        total = rng.choice([125, 126, 127, 128, 130, 140])
        per = max(1, total // len(items))
        for it in items:
            it[2] = per
        items[0][2] += total - per * len(items)
    else:
        for it in items:
            it[2] = rng.choice([1, 1, 1, 2, 2, 3, 4])
        if big and rr < 0.3:
            for it in items:
                it[2] = rng.randint(1, 10)
        while sum(it[2] for it in items) > cap:
            j = max(range(len(items)), key=lambda q: items[q][2])
            if items[j][2] > 1:
                items[j][2] -= 1
            else:
                items.pop()
    inst = {"W": W, "H": H, "items": items}
    assert valid_inst(inst), inst
    return inst


def scenario_name(doc, prefix: str = "s") -> str:
    """A name that is unique per scenario document: state that repo code keys
    by instance name can then not leak from one scenario into the next (which
    would make results depend on what a worker executed before)."""
    from simkit import core
    return prefix + core.digest(doc)[:12]


def build_instance(inst: dict, name: str | None = None):
    from moptipyapps.binpacking2d.instance import Instance
    if "resource" in inst:
        return Instance.from_resource(inst["resource"])
    rows = [[int(v) for v in row] for row in inst["items"]]
    nm = name or inst.get("name", "sim")
    caller = inst.get("caller")
    if caller:
        # the caller hands over an array of its own - possibly already of the
        # type the instance stores - and re-uses that buffer afterwards
        import numpy as np
        probe = Instance(nm, int(inst["W"]), int(inst["H"]), rows)
        if caller["src"] == "instance":
            # another Instance (same items, a bin just large enough for
            # them - hence possibly a narrower storage type) as the matrix
            mw = max(max(r[0], r[1]) for r in rows)
            src = Instance(nm + "src", mw, mw, rows)
        else:
            dt = probe.dtype if caller["src"] in ("auto", "fortran") \
                else np.int64
            src = np.array(rows, dtype=dt)
            if caller["src"] == "fortran":
                # column-major, as np.array([widths, heights, reps]).T is
                src = np.asfortranarray(src)
        out = Instance(nm, int(inst["W"]), int(inst["H"]), src)
        if caller["src"] == "instance":
            return out
        if caller["reuse"] == "scale":
            src *= 3
        else:
            src.fill(0)
        return out
    return Instance(nm, int(inst["W"]), int(inst["H"]), rows)


def resolve_items(inst: dict) -> list:
    if "resource" in inst:
        key = inst["resource"]
        if key not in _CACHE:
            i = build_instance(inst)
            _CACHE[key] = (int(i.bin_width), int(i.bin_height),
                           [[int(v) for v in row] for row in i])
        return [list(r) for r in _CACHE[key][2]]
    return inst["items"]


def resolve_bin(inst: dict) -> tuple[int, int]:
    if "resource" in inst:
        resolve_items(inst)
        return _CACHE[inst["resource"]][0], _CACHE[inst["resource"]][1]
    return inst["W"], inst["H"]


def x_dtype(inst):
    """The dtype a production search space uses for permutations of this instance."""
    from moptipy.spaces.signed_permutations import SignedPermutations
    from moptipy.utils.nputils import int_range_to_dtype
    seq = inst.get_standard_item_sequence()
    try:
        return SignedPermutations(seq).dtype
    except ValueError:
        # a one-item instance has no moptipy search space; same dtype rule
        n = int(inst.n_different_items)
        return int_range_to_dtype(-n, n)


def scratch_arrays(obj) -> list:
    """All numpy arrays an object keeps as attributes (except problem data)."""
    import numpy as np
    from moptipyapps.binpacking2d.instance import Instance
    out = []
    for name in sorted(vars(obj)):
        v = vars(obj)[name]
        if isinstance(v, np.ndarray) and not isinstance(v, Instance) \
                and v.ndim >= 1 and v.size > 0:
            out.append(v)
    return out


def gen_exact_fill(rng: random.Random) -> tuple[dict, list]:
    """Full-width strips that fill b bins exactly plus one tiny item that has to
    go to bin b+1 alone: lower_bound_bins = b+1 and the natural packing has a
    sparse last bin holding only the smallest item. Returns (inst, x)."""
    W = rng.choice([3, 8, 12, 20, 25, 40])
    H = rng.choice([6, 10, 15, 24, 40, 60])
    b = rng.choice([1, 1, 2, 3])
    items: list = []
    x: list = []
    for _ in range(b):
        left = H
        while left > 0:
            h = left if left <= 2 or rng.random() < 0.3 \
                else rng.randint(1, left)
            key = [W, h]
            for t, it in enumerate(items):
                if it[:2] == key:
                    it[2] += 1
                    x.append(t + 1)
                    break
            else:
                items.append([W, h, 1])
                x.append(len(items))
            left -= h
    tw, th = rng.randint(1, max(1, W // 4)), rng.randint(1, max(1, H // 6))
    if [tw, th] in [it[:2] for it in items]:
        tw = max(1, tw - 1) if tw > 1 else tw
    items.append([tw, th, 1])
    x.append(len(items))
    # item types in arbitrary order (ids in x renamed accordingly)
    order = list(range(len(items)))
    rng.shuffle(order)
    new_id = {old + 1: new + 1 for new, old in enumerate(order)}
    items = [items[old] for old in order]
    x = [new_id[v] for v in x]
    inst = {"W": W, "H": H, "items": items}
    assert valid_inst(inst), inst
    return inst, x


def gen_huge_bin(rng: random.Random) -> dict:
    """Bins of area ~1e15 with items whose short side is 1 (the instance
    constructor's bound stays cheap for those): values of the area-based
    objectives leave the range in which floats are exact."""
    # up to 1e17 area units per bin: with at most ~20 items every value
    # still fits the kernels' 64 bit integers
    W = rng.choice([10 ** 11, 10 ** 9, 7 * 10 ** 10, 999_999_937])
    H = rng.choice([10 ** 6, 6 * 10 ** 5, 999_983])
    items = [[1, 1, rng.randint(2, 9)]]
    if rng.random() < 0.6:
        items.append([1, rng.randint(2, 50), rng.randint(1, 5)])
    if rng.random() < 0.4:
        items.append([rng.randint(2, 90), 1, rng.randint(1, 4)])
    inst = {"W": W, "H": H, "items": items}
    assert valid_inst(inst), inst
    return inst


def gen_large_items_bin(rng: random.Random) -> dict:
    """Bins with sides of 4e4..1.5e5 and a few items nearly as large: item and
    per-bin areas lie around and beyond 2**31 / 2**32 while the instance
    stays cheap to build (few items, sides of similar length). Whatever the
    objectives keep per bin or per item must hold such areas."""
    W = rng.choice([46341, 50000, 65536, 92682, 131072, 150000,
                    rng.randint(40000, 150000)])
    H = rng.choice([46341, 60000, 65537, W, rng.randint(40000, 150000)])
    items = []
    for _ in range(rng.choice([1, 2, 2, 3])):
        w = rng.randint(max(1, W // 3), W)
        h = rng.randint(max(1, H // 3), H)
        if rng.random() < 0.2:
            w, h = W, H
        items.append([w, h, rng.choice([1, 1, 2, 3])])
    inst = {"W": W, "H": H, "items": items}
    assert valid_inst(inst), inst
    return inst
