"""C11 - operation histories on one FigureOfMerit object vs. a fresh object + ledger."""
from __future__ import annotations

import math
import os
import random

from simkit import core
from simkit.core import fhex, unhex
from simkit.oracles import ode as orc

PROPERTY = "C11"
SIM_TIME_UNIT = "simulated ODE time units integrated by the object under test"
STATE_MEASURE = ("distinct (class, model support, mode, ledger-length class, "
                 "previous op, op) transition tuples")
RULE = (
    "Scenario = one FigureOfMerit / FigureOfMeritLE object on a tiny synthetic "
    "system (2-3 states, 1-2 controls, 1-4 training starts of growing magnitude, "
    "10-40 steps) - in the thorough tier also on bundled Stuart-Landau/Lorenz "
    "pairs - driven through 1-25 operations: evaluate(x) with x from a pool "
    "(zeros, random in the parameter box, box corners, destabilising gains that "
    "make a later training case fail after earlier ones were recorded, NaN/inf "
    "components), initialize(), set_model(m) with Python and njit model "
    "equations (well-behaved, diverging, NaN after a time, the true equations), "
    "set_raw(), get_differentials(), a ModelObjective begin/evaluate/end cycle, "
    "and contract-violating calls that must raise and change nothing. Oracles: "
    "a fresh objective on a freshly built instance per evaluate (bit-equality), "
    "the documented aggregate of independently recomputed per-case J, and a "
    "ledger of collected blocks. Non-trivial = at least two evaluations on the "
    "shared object with a mode switch, initialize or a different vector in "
    "between; distinct = distinct scenario-document digests."
    " Further operations and batches: read-only API calls, an allocation failing inside get_differentials, a model that is singular at the origin, surrogate runs in which every evaluation is observed with the objective's mode, and two caller threads with an objective object each under the line-event scheduler.")
COMPONENTS = {
    "real": ["FigureOfMerit, FigureOfMeritLE (evaluate, initialize, set_model, "
             "set_raw, get_differentials, sum_up_results)",
             "ModelObjective.begin/evaluate/end (njit _evaluate)",
             "run_ode, j_from_ode, diff_from_ode", "dynamic_control Instance, "
             "System, Controller; bundled systems/controllers (thorough)"],
    "stub": ["the caller (operation history)", "the model equations handed to "
             "set_model", "synthetic system equations and controller"],
}
ASSUMPTIONS = [
    "bit-equality between a used and a fresh objective is the property itself; "
    "the independent aggregate uses math.fsum-free plain numpy mean/log1p/expm1 "
    "at relative 1e-9",
    "run_ode/j_from_ode are trusted here (decided by C10)",
    "numba, numpy, scipy are trusted",
]
FAULT_KINDS = ["caller_threads_interleaved", "alloc_failure_in_get_differentials", "same_name_other_system", "cancel_in_model_phase", "model:raises", "x:nan_or_inf", "x:destabilising", "model:diverging",
               "model:nan_after", "illegal:set_model_unsupported",
               "illegal:get_differentials_unsupported", "short_circuit_1e200"]
PROBES = ["short_circuit_after_recorded_case", "model_eval_between_raw_evals",
          "initialize_in_model_mode", "le_after_log1p_garbage",
          "get_differentials:0", "get_differentials:1", "get_differentials:many",
          "illegal_op_raised", "model_objective_cycle", "class:mean",
          "class:le", "supports_model:yes", "supports_model:no",
          "model_is_truth_equal_values", "bundled_system",
          "surrogate_solve"]
HARD_CAP_S = 240.0
CHUNK = 4
BUNDLED_FAMILIES = ["linear", "quadratic", "cubic", "anns", "min_anns",
                    "peaks", "partially_linear", "predefined"]
BUNDLED_WATCHDOG_S = 45.0
_DIMS: dict = {}


class _Undecided(BaseException):
    """Watchdog signal; a BaseException so that no 'except Exception' around
    repo calls can mistake it for a failure of the code under test."""


def _bundled_controller(system, fam: str, k: int):
    import importlib
    mod = {"anns": "ann", "min_anns": "min_ann"}.get(fam, fam)
    cmod = importlib.import_module(
        f"moptipyapps.dynamic_control.controllers.{mod}")
    made = getattr(cmod, fam)(system)
    if hasattr(made, "controller") and hasattr(made, "param_dims"):
        return made
    made = list(made)
    return made[k % len(made)]


def _bundled_dim(b: list) -> int:
    key = tuple(b)
    if key not in _DIMS:
        inst, _ = _build({"bundled": b})
        _DIMS[key] = int(inst.controller.param_dims)
    return _DIMS[key]


MODELS = ["lin:1", "lin:2", "lin:3", "div", "nan_after:0.5", "nan_after:0.0",
          "njit_lin", "real", "raise_after:0.3", "singular_at_origin"]


class _ModelFailure(Exception):
    """Raised by a model that breaks down in the middle of a simulation."""


def plan(tier: str) -> list:
    if tier == "quick":
        return [{"name": "history", "n": 2500, "max_ops": 25},
                {"name": "bundled", "n": 24, "max_ops": 4, "bundled": True},
                {"name": "surrogate", "n": 32, "max_ops": 6,
                 "surrogate": True},
                {"name": "threads", "n": 240, "max_ops": 2, "threads": True}]
    return [{"name": "history", "n": 150000, "max_ops": 25},
            {"name": "bundled", "n": 400, "max_ops": 5, "bundled": True},
            {"name": "surrogate", "n": 1200, "max_ops": 8,
             "surrogate": True},
            {"name": "threads", "n": 12000, "max_ops": 3, "threads": True}]


def warmup() -> None:
    execute(directed("quick")[0])


# ------------------------------------------------------------------ generation

def _rf(rng, lo, hi):
    return round(rng.uniform(lo, hi), 3)


def gen_system(rng: random.Random) -> dict:
    sd = rng.choice([2, 2, 3])
    cd = rng.choice([1, 1, 2])
    A = [[0.0] * sd for _ in range(sd)]
    for i in range(sd):
        A[i][i] = _rf(rng, -1.5, 0.6)
        for j in range(sd):
            if i != j and rng.random() < 0.4:
                A[i][j] = _rf(rng, -1.0, 1.0)
    B = [[_rf(rng, -1.0, 1.0) for _ in range(cd)] for _ in range(sd)]
    n_train = rng.choice([1, 2, 2, 3, 4])
    train = [[_rf(rng, -1.0, 1.0) * (k + 1) for _ in range(sd)]
             for k in range(n_train)]
    return {"sd": sd, "cd": cd, "A": A, "B": B, "train": train,
            "steps": rng.choice([10, 12, 20, 40]),
            "time": rng.choice([1.0, 2.0, 5.0]),
            "gamma": rng.choice([0.1, 0.1, 1.0]),
            "in_j": rng.choice([-1, -1, 1]),
            "blow": rng.choice([5.0, 20.0, 1e3, 1e9])}


def gen_x(rng: random.Random, dim: int) -> tuple[list, str]:
    r = rng.random()
    if r < 0.12:
        return [0.0] * dim, "zeros"
    if r < 0.24:
        return [rng.choice([-32.0, 32.0]) for _ in range(dim)], "corner"
    if r < 0.36:
        return [_rf(rng, 3.0, 32.0) * rng.choice([1, 1, -1])
                for _ in range(dim)], "destabilising"
    if r < 0.44:
        x = [_rf(rng, -2.0, 2.0) for _ in range(dim)]
        x[rng.randrange(dim)] = rng.choice(
            [float("nan"), float("inf"), float("-inf")])
        return x, "nan_or_inf"
    if r < 0.7:
        return [_rf(rng, -1.0, 1.0) for _ in range(dim)], "small"
    return [_rf(rng, -32.0, 32.0) for _ in range(dim)], "box"


def generate(rng: random.Random, batch: dict, depth: int = 0) -> dict:
    doc = _generate(rng, batch)
    if depth == 0 and "bundled" not in doc["system"] \
            and not batch.get("surrogate") and not batch.get("threads") \
            and rng.random() < 0.1:
        twin = _generate(rng, {**batch, "max_ops": 8})
        if "bundled" not in twin["system"]:
            doc["twin"] = twin
    return doc


def _generate_threads(rng: random.Random, batch: dict) -> dict:
    """Two caller threads, each with an objective object of its own (built
    from its own instance of the same system), evaluating at the same time."""
    system = gen_system(rng)
    dim = system["sd"] * system["cd"]
    threads = []
    for _ in range(2):
        xs = []
        for _ in range(rng.randint(1, batch["max_ops"])):
            x, _how = gen_x(rng, dim)
            xs.append([fhex(v) if math.isfinite(v) else repr(v) for v in x])
        threads.append({"xs": xs, "picks": [
            [rng.random(), rng.random(), rng.random()]
            for _ in range(rng.choice([1, 2, 4, 8]))]})
    return {"system": system, "cls": rng.choice(["mean", "le"]),
            "supports_model": rng.random() < 0.6, "ops": [],
            "threads": threads}


def _generate(rng: random.Random, batch: dict) -> dict:
    if batch.get("threads"):
        return _generate_threads(rng, batch)
    if batch.get("bundled"):
        sysname = rng.choice(["stuart_landau", "lorenz", "stuart_landau",
                              "lorenz", "three_coupled_oscillators"])
        # six state dimensions of which two enter J; only the generated
        # networks exist for that many dimensions
        fam = "anns" if sysname == "three_coupled_oscillators" \
            else rng.choice(BUNDLED_FAMILIES)
        system = {"bundled": [sysname, fam, rng.randrange(8)]}
        dim = _bundled_dim(system["bundled"])
        sdcd = ({"stuart_landau": 2, "lorenz": 3,
                 "three_coupled_oscillators": 6}[sysname], 1)
    else:
        system = gen_system(rng)
        dim = system["sd"] * system["cd"]
        sdcd = (system["sd"], system["cd"])
    cls = rng.choice(["mean", "le"])
    supports = rng.random() < 0.75
    if batch.get("surrogate"):
        # the surrogate optimizer drives the shared objective through
        # warm-up, model training, a run on the model and back; a
        # cancellation may hit while the objective is in model mode
        supports = True
        ops = []
        for _ in range(rng.randint(1, batch["max_ops"])):
            r = rng.random()
            if r < 0.45:
                x, how = gen_x(rng, dim)
                ops.append({"op": "evaluate",
                            "x": [fhex(v) if math.isfinite(v) else repr(v)
                                  for v in x], "how": how})
            elif r < 0.6:
                ops.append({"op": "initialize"})
            elif r < 0.68:
                ops.append({"op": "get_differentials"})
            elif r < 0.74:
                ops.append({"op": "observe", "what": rng.choice(
                    ["log", "log", "str", "bounds"])})
            else:
                ops.append({"op": "surrogate_solve",
                            "warmup": rng.choice([1, 2]),
                            "train": rng.choice([3, 6]),
                            "on_model": rng.choice([3, 5]),
                            "max_fes": rng.choice([3, 4, 5]),
                            "seed": rng.getrandbits(40),
                            "terminate_at_model": rng.choice(
                                [None, None, 1, 1, 2])})
        if not any(o["op"] == "surrogate_solve" for o in ops):
            ops.insert(rng.randrange(len(ops) + 1), {
                "op": "surrogate_solve", "warmup": 1, "train": 3,
                "on_model": 3, "max_fes": 4, "seed": rng.getrandbits(40),
                "terminate_at_model": rng.choice([None, 1])})
        ops.append({"op": "initialize"})
        x, how = gen_x(rng, dim)
        x = [v if math.isfinite(v) else 0.25 for v in x]
        ops.append({"op": "evaluate", "x": [fhex(v) for v in x],
                    "how": "small"})
        ops.append({"op": "get_differentials"})
        return {"system": system, "cls": cls, "supports_model": True,
                "ops": ops}
    n_ops = rng.randint(1, batch["max_ops"])
    ops = []
    pool = []
    scale = 0.05 if batch.get("bundled") else 1.0
    for _ in range(n_ops):
        r = rng.random()
        if r < 0.5:
            if pool and rng.random() < 0.35:
                x, how = rng.choice(pool), "again"
            else:
                x, how = gen_x(rng, dim)
                if batch.get("bundled"):
                    x = [v * scale if math.isfinite(v) else v for v in x]
                pool.append(x)
            ops.append({"op": "evaluate",
                        "x": [fhex(v) if math.isfinite(v) else repr(v)
                              for v in x], "how": how})
        elif r < 0.58:
            ops.append({"op": "initialize"})
        elif r < 0.72:
            ops.append({"op": "set_model", "model": rng.choice(MODELS)})
        elif r < 0.82:
            ops.append({"op": "set_raw"})
        elif r < 0.90:
            if rng.random() < 0.25:
                ops.append({"op": "get_differentials",
                            "alloc_fail": rng.choice([1, 2])})
            ops.append({"op": "get_differentials"})
        elif r < 0.95:
            ops.append({"op": "observe",
                        "what": rng.choice(["log", "log", "str", "bounds"])})
        else:
            ops.append({"op": "model_objective",
                        "q": [fhex(_rf(rng, -1.0, 1.0))
                              for _ in range((sdcd[0] + sdcd[1]) * sdcd[0])]})
    return {"system": system, "cls": cls, "supports_model": supports,
            "ops": ops}


def _x(vals):
    return [fhex(float(v)) for v in vals]


def directed(tier: str) -> list:
    sysd = {"sd": 2, "cd": 1, "A": [[-0.5, 0.3], [0.0, -0.8]],
            "B": [[1.0], [0.5]], "train": [[0.5, -0.2], [1.0, 0.8],
                                           [2.5, -2.0]],
            "steps": 12, "time": 2.0, "gamma": 0.1, "in_j": -1, "blow": 5.0}
    docs = []
    for cls in ("mean", "le"):
        docs.append({"system": sysd, "cls": cls, "supports_model": True,
                     "ops": [
            {"op": "evaluate", "x": _x([0.1, -0.2]), "how": "small"},
            {"op": "evaluate", "x": _x([3.0, 3.0]), "how": "destabilising"},
            {"op": "get_differentials"},
            {"op": "set_model", "model": "lin:1"},
            {"op": "evaluate", "x": _x([0.1, -0.2]), "how": "again"},
            {"op": "set_model", "model": "div"},
            {"op": "evaluate", "x": _x([0.3, 0.1]), "how": "small"},
            {"op": "set_model", "model": "real"},
            {"op": "evaluate", "x": _x([0.1, -0.2]), "how": "again"},
            {"op": "set_raw"},
            {"op": "evaluate", "x": _x([0.1, -0.2]), "how": "again"},
            {"op": "observe", "what": "log"},
            {"op": "model_objective", "q": _x([0.1] * 6)},
            {"op": "get_differentials"},
            {"op": "set_model", "model": "njit_lin"},
            {"op": "initialize"},
            {"op": "get_differentials"},
            {"op": "evaluate", "x": ["nan", fhex(1.0)], "how": "nan_or_inf"},
            {"op": "evaluate", "x": _x([0.0, 0.0]), "how": "zeros"},
            {"op": "get_differentials"}]})
        docs.append({"system": sysd, "cls": cls, "supports_model": False,
                     "ops": [
            {"op": "evaluate", "x": _x([0.1, -0.2]), "how": "small"},
            {"op": "set_model", "model": "lin:2"},
            {"op": "get_differentials"},
            {"op": "evaluate", "x": _x([3.0, 3.0]), "how": "destabilising"},
            {"op": "evaluate", "x": _x([0.1, -0.2]), "how": "again"}]})
    return docs


# ------------------------------------------------------------------ execution

_NJIT = {}


def _njit_funcs():
    """numba-compiled model equations (needed by ModelObjective._evaluate)."""
    if not _NJIT:
        import numba
        import numpy as np  # noqa: F401

        @numba.njit(cache=False)
        def model_ctrl(row, t, q, out):
            n_in = len(row)
            for i in range(len(out)):
                acc = 0.0
                for j in range(n_in):
                    acc += q[i * n_in + j] * row[j]
                out[i] = acc

        @numba.njit(cache=False)
        def njit_lin(state, t, control, out):
            for i in range(len(out)):
                out[i] = -0.4 * state[i] + 0.25 * control[0]
        _NJIT["model_ctrl"] = model_ctrl
        _NJIT["njit_lin"] = njit_lin
    return _NJIT


def _make_model(mid: str, sd: int, cd: int, real_eq):
    kind, _, arg = mid.partition(":")
    if kind == "real":
        return real_eq
    if kind == "njit_lin":
        return _njit_funcs()["njit_lin"]
    if kind == "div":
        def div(state, t, control, out):
            for i in range(sd):
                out[i] = 5.0 * float(state[i]) + 1.0
        return div
    rnd = random.Random(1000 + (int(arg) if kind == "lin" else 7))
    if kind == "raise_after":
        rnd = random.Random(1001)
    if kind == "singular_at_origin":
        rnd = random.Random(1002)
    M = [[round(rnd.uniform(-0.6, 0.3), 3) for _ in range(sd + cd)]
         for _ in range(sd)]
    for i in range(sd):
        M[i][i] = -abs(M[i][i]) - 0.1
    tt = float(arg) if kind == "nan_after" else math.inf
    t_raise = float(arg) if kind == "raise_after" else math.inf

    singular = kind == "singular_at_origin"

    def lin(state, t, control, out):
        if t > t_raise:
            raise _ModelFailure(f"model broke down at t={t}")
        if singular and not any(float(v) != 0.0 for v in state) \
                and not any(float(v) != 0.0 for v in control):
            # (a model with a 1/r term: undefined exactly at the origin,
            # where no training trajectory of the scenario ever is)
            raise _ModelFailure("model is singular at the origin")
        for i in range(sd):
            acc = 0.0
            row = M[i]
            for j in range(sd):
                acc += row[j] * float(state[j])
            for j in range(cd):
                acc += row[sd + j] * float(control[j])
            out[i] = acc if t <= tt else math.nan
    return lin


def _build(sysdoc: dict, name: str | None = None):
    """A freshly built Instance (new arrays, new closures) for the scenario."""
    import numpy as np
    from moptipyapps.dynamic_control.controller import Controller
    from moptipyapps.dynamic_control.instance import Instance
    from moptipyapps.dynamic_control.system import System
    if "bundled" in sysdoc:
        import importlib
        sname, cname = sysdoc["bundled"][0], sysdoc["bundled"][1]
        cidx = sysdoc["bundled"][2] if len(sysdoc["bundled"]) > 2 else 0
        smod = importlib.import_module(
            f"moptipyapps.dynamic_control.systems.{sname}")
        base = getattr(smod, {
            "stuart_landau": "STUART_LANDAU_4", "lorenz": "LORENZ_4",
            "three_coupled_oscillators": "THREE_COUPLED_OSCILLATORS"}[sname])
        # shorter training legs keep one evaluation at ~50 ms
        system = System(base.name, base.state_dims, base.control_dims,
                        base.state_dim_mod, base.state_dims_in_j, base.gamma,
                        np.array(base.test_starting_states),
                        np.array(base.training_starting_states),
                        100, 5.0, 60, 4.0, (0,))
        system.equations = base.equations
        controller = _bundled_controller(system, cname, cidx)
        return Instance(system, controller), system.equations
    sd, cd = int(sysdoc["sd"]), int(sysdoc["cd"])
    Al = [[float(v) for v in r] for r in sysdoc["A"]]
    Bl = [[float(v) for v in r] for r in sysdoc["B"]]
    blow = float(sysdoc["blow"])

    def equations(state, t, control, out):
        for i in range(sd):
            acc = 0.0
            for j in range(sd):
                acc += Al[i][j] * float(state[j])
            for j in range(cd):
                acc += Bl[i][j] * float(control[j])
            out[i] = acc

    def controller_f(state, t, params, out):
        for k in range(cd):
            acc = 0.0
            for j in range(sd):
                acc += float(params[k * sd + j]) * float(state[j])
            out[k] = acc if abs(acc) <= blow else math.nan
    train = np.array(sysdoc["train"], dtype=float)
    system = System(name or ("sys" + core.digest(sysdoc)[:10]), sd, cd, 0,
                    int(sysdoc["in_j"]),
                    float(sysdoc["gamma"]), train.copy(), train.copy(),
                    10, 1.0, int(sysdoc["steps"]), float(sysdoc["time"]), (0,))
    system.equations = equations
    controller = Controller("simctrl", sd, cd, sd * cd, controller_f)
    return Instance(system, controller), equations


def _arr_eq(a, b) -> bool:
    import numpy as np
    return a.shape == b.shape and np.array_equal(a, b, equal_nan=True)


def _same_float(a: float, b: float) -> bool:
    return (a == b) or (a != a and b != b)


def execute(doc: dict) -> dict:
    """Bundled nonlinear systems get a watchdog: a legally stiff closed loop is
    slow, not wrong - such a scenario is recorded as undecided."""
    import signal
    if "bundled" not in doc["system"]:
        return _execute(doc)

    def on_alarm(signum, frame):
        raise _Undecided
    old = signal.signal(signal.SIGALRM, on_alarm)
    signal.setitimer(signal.ITIMER_REAL, BUNDLED_WATCHDOG_S)
    try:
        return _execute(doc)
    except _Undecided:
        res = core.new_result()
        core.bump(res["probes"], "undecided:bundled_watchdog")
        core.bump(res["probes"], "bundled_system")
        res["events"].append(["undecided", "watchdog"])
        return res
    finally:
        signal.setitimer(signal.ITIMER_REAL, 0.0)
        signal.signal(signal.SIGALRM, old)


def _execute_threads(doc: dict) -> dict:
    """Each thread's evaluations must give what they give when that thread
    runs alone - whatever the interleaving of the Python-level steps."""
    import warnings

    import numpy as np
    warnings.simplefilter("ignore")
    from moptipyapps.dynamic_control.objective import (FigureOfMerit,
                                                       FigureOfMeritLE)
    res = core.new_result()
    cls = FigureOfMeritLE if doc["cls"] == "le" else FigureOfMerit
    supports = bool(doc["supports_model"])
    name = "sys" + core.digest(doc["system"])[:10]
    pre = core.Preempt((os.sep + "moptipyapps" + os.sep, ))

    def body_for(th):
        inst, _ = _build(doc["system"], name)
        obj = cls(inst, supports)
        xs = [np.array([unhex(v) for v in x], dtype=float) for x in th["xs"]]

        def body():
            vals = [obj.evaluate(x) for x in xs]
            rows = None
            if supports:
                try:
                    a, b = obj.get_differentials()
                    rows = (np.array(a), np.array(b))
                except ValueError:
                    rows = None
            return vals, rows
        return body
    alone, points = [], []
    for th in doc["threads"]:
        out, table = pre.profile(body_for(th))
        alone.append(out)
        points.append(core.Preempt.pick_points(table, th["picks"]))
        res["ops"] += len(th["xs"])
    got, switches = pre.run([body_for(th) for th in doc["threads"]], points)
    core.bump(res["faults"], "caller_threads_interleaved")
    if switches >= 2:
        core.bump(res["probes"], "thread_switches>=2")
    res["events"].append(["threads", switches, [
        [fhex(float(v)) if math.isfinite(v) else repr(v) for v in a[0]]
        for a in alone]])
    for i, (a, g) in enumerate(zip(alone, got)):
        if isinstance(g, BaseException):
            core.violation(res, "concurrent-evaluation-raised",
                           f"thread {i}: {type(g).__name__}: {g}")
            break
        same_vals = len(a[0]) == len(g[0]) and all(
            _same_float(u, v) for u, v in zip(a[0], g[0]))
        same_rows = (a[1] is None) == (g[1] is None) and (
            a[1] is None or (_arr_eq(a[1][0], g[1][0])
                             and _arr_eq(a[1][1], g[1][1])))
        if not (same_vals and same_rows):
            core.violation(
                res, "concurrent-evaluation-differs-from-sequential",
                f"thread {i} (its own objective object): values {g[0]} with "
                f"the other thread running in between ({switches} switches), "
                f"{a[0]} alone; recorded data equal: {same_rows}")
            break
    res["sim_time"] += float(res["ops"])
    res["nontrivial"] = switches >= 1
    return res


def _execute(doc: dict) -> dict:
    """Optionally followed by a twin: a different system that carries the SAME
    name (and hence the same instance name) with its own objective object."""
    if doc.get("threads"):
        return _execute_threads(doc)
    name = "sys" + core.digest(doc["system"])[:10]
    res = _execute_one(doc, name)
    twin = doc.get("twin")
    if twin is not None and res["violation"] is None:
        r2 = _execute_one(twin, name)
        res["events"].append(["twin"])
        res["events"].extend(r2["events"])
        for key in ("faults", "probes"):
            for k, v in r2[key].items():
                res[key][k] = res[key].get(k, 0) + v
        res["states"].extend(r2["states"])
        res["ops"] += r2["ops"]
        res["sim_time"] += r2["sim_time"]
        res["nontrivial"] = res["nontrivial"] or r2["nontrivial"]
        core.bump(res["faults"], "same_name_other_system")
        if r2["violation"] is not None:
            res["violation"] = r2["violation"]
            res["violation"]["in_twin"] = True
    return res


def _execute_one(doc: dict, sysname: str) -> dict:
    import warnings

    import numpy as np
    warnings.simplefilter("ignore")
    from moptipyapps.dynamic_control.controller import Controller
    from moptipyapps.dynamic_control.model_objective import ModelObjective
    from moptipyapps.dynamic_control.objective import (FigureOfMerit,
                                                       FigureOfMeritLE)
    from moptipyapps.dynamic_control.ode import run_ode

    res = core.new_result()
    cls = FigureOfMeritLE if doc["cls"] == "le" else FigureOfMerit
    supports = bool(doc["supports_model"])
    inst, real_eq = _build(doc["system"], sysname)
    sd = int(inst.system.state_dims)
    cd = int(inst.system.control_dims)
    obj = cls(inst, supports)
    core.bump(res["probes"], f"class:{doc['cls']}")
    core.bump(res["probes"], "supports_model:yes" if supports
              else "supports_model:no")
    if "bundled" in doc["system"]:
        core.bump(res["probes"], "bundled_system")
    mode = "raw"              # the simulator's reference model of the object
    model_id = None
    ledger: list = []         # list of (sc, df) blocks
    models: dict = {}
    evals = 0
    interesting = 0
    last_eval_x = None
    prev_op = "new"
    raw_seen: dict = {}
    model_between: set = set()
    last_raw_value_log_garbage = False

    def model_of(mid, for_inst_eq):
        return _make_model(mid, sd, cd, for_inst_eq)

    def collections_of(o):
        """The two internal lists of recorded blocks, found by content (two
        list-or-None attributes); None if the object keeps them otherwise."""
        cands = [(k, v) for k, v in sorted(vars(o).items())
                 if (isinstance(v, list) or v is None)
                 and "collect" in k.lower()]
        lists = [v for _, v in cands]
        if len(lists) != 2:
            return "unknown", "unknown"
        a, b = lists
        if a is None or b is None or not a:
            return (a, b)
        # (state, control) rows are wider than the differential rows
        if a[0].shape[1] < b[0].shape[1]:
            a, b = b, a
        return a, b

    def obj_blocks():
        return collections_of(obj)

    # The internal view is only used while it is *understood*: on every fresh
    # reference objective it must show exactly what get_differentials()
    # returns, before and after that call. A refactoring that keeps the
    # recorded data differently switches the view off (the public operations
    # then decide alone) instead of raising a false alarm.
    view = {"ok": None}

    def view_rows(o):
        sc, df = collections_of(o)
        if isinstance(sc, str) or sc is None or df is None \
                or len(sc) != len(df) or not len(sc):
            return None
        try:
            return np.concatenate(list(sc)), np.concatenate(list(df))
        except ValueError:
            return None

    def calibrate(before, got, after) -> None:
        if view["ok"] is False:
            return
        good = all(v is not None and _arr_eq(v[0], np.asarray(got[0]))
                   and _arr_eq(v[1], np.asarray(got[1]))
                   for v in (before, after))
        view["ok"] = bool(good)
        if not good:
            core.bump(res["probes"], "internal_view_switched_off")

    def check_ledger(after: str) -> bool:
        if view["ok"] is not True:
            return True     # internals not understood: decided at the ops only
        sc, df = obj_blocks()
        if isinstance(sc, str):
            return True     # internals not visible: decided at the ops only
        if not supports:
            if sc is not None or df is not None:
                core.violation(res, "collects-without-model-support",
                               f"after {after}: collections exist although "
                               f"supports_model_mode is False")
                return False
            return True
        if sc is None or df is None or len(sc) != len(df):
            core.violation(res, "recorded-data-corrupt",
                           f"after {after}: collection lists {type(sc)} / "
                           f"{type(df)} of different length or missing")
            return False
        want_sc = np.concatenate([b[0] for b in ledger]) if ledger else None
        want_df = np.concatenate([b[1] for b in ledger]) if ledger else None
        got_sc = np.concatenate(list(sc)) if len(sc) else None
        got_df = np.concatenate(list(df)) if len(df) else None
        ok = (want_sc is None) == (got_sc is None)
        if ok and want_sc is not None:
            ok = _arr_eq(want_sc, got_sc) and _arr_eq(want_df, got_df)
        if not ok:
            core.violation(
                res, "recorded-data-differs-from-ledger",
                f"after {after} (mode {mode}): object holds "
                f"{0 if got_sc is None else len(got_sc)} recorded rows, the "
                f"ledger {0 if want_sc is None else len(want_sc)} (or the "
                f"contents differ)", after=after.split(" ")[0])
            return False
        return True

    for idx, op in enumerate(doc["ops"]):
        kind = op["op"]
        lclass = "0" if not ledger else ("1" if len(ledger) == 1 else "n")
        res["states"].append(f"{doc['cls']}|{supports}|{mode}|{lclass}|"
                             f"{prev_op}|{kind}")
        if kind == "evaluate":
            x = np.array([unhex(v) for v in op["x"]], dtype=float)
            xk = core.digest(op["x"])[:12]
            if op.get("how") == "nan_or_inf":
                core.bump(res["faults"], "x:nan_or_inf")
            if op.get("how") == "destabilising":
                core.bump(res["faults"], "x:destabilising")
            # ---- reference: fresh objective on a freshly built instance
            finst, freal = _build(doc["system"], sysname)
            fresh = cls(finst, supports)
            if mode == "model":
                fresh.set_model(model_of(model_id, freal))
            fresh_failure = False
            try:
                v_fresh = fresh.evaluate(x.copy())
            except _ModelFailure:
                v_fresh, fresh_failure = None, True
            except Exception as exc:  # noqa: BLE001
                core.violation(res, "evaluate-raised",
                               f"op {idx}: a fresh objective raised "
                               f"{type(exc).__name__}: {exc} for "
                               f"x={x.tolist()} in {mode} mode")
                break
            fresh_blocks = []
            if supports and mode == "raw":
                before = view_rows(fresh)
                try:
                    gsc, gdf = fresh.get_differentials()
                    fresh_blocks = [(np.array(gsc), np.array(gdf))]
                    calibrate(before, (gsc, gdf), view_rows(fresh))
                except ValueError:
                    fresh_blocks = []   # nothing was recorded
            # ---- the object under test
            try:
                v = obj.evaluate(x)
            except _ModelFailure:
                # the model itself broke down: the exception must pass
                # through, a fresh objective must have failed as well, and
                # nothing may stick (checked by the ledger and by whatever
                # the history does next)
                res["events"].append(["evaluate", mode, xk, "model-failure"])
                core.bump(res["faults"], "model:raises")
                if not fresh_failure:
                    core.violation(
                        res, "differs-from-fresh-objective",
                        f"op {idx}: the model's exception surfaced on the "
                        f"used objective only", mode=mode)
                    break
                evals += 1
                if not check_ledger(f"{kind} (op {idx})"):
                    break
                prev_op = kind
                continue
            except Exception as exc:  # noqa: BLE001
                core.violation(res, "evaluate-raised",
                               f"op {idx}: {type(exc).__name__}: {exc}")
                break
            if fresh_failure:
                core.violation(
                    res, "differs-from-fresh-objective",
                    f"op {idx}: a fresh objective propagates the model's "
                    f"exception, the used one returned {v!r}", mode=mode)
                break
            res["ops"] += 1
            evals += 1
            res["sim_time"] += float(inst.system.training_time) * len(
                inst.system.training_starting_states)
            res["events"].append(["evaluate", mode, xk, fhex(v)
                                  if isinstance(v, float) and math.isfinite(v)
                                  else repr(v)])
            if not isinstance(v, float) or not (
                    (0.0 <= v <= 1e100) or v == 1e200):
                core.violation(res, "value-out-of-range",
                               f"op {idx}: evaluate returned {v!r}, not in "
                               f"[0,1e100] or 1e200")
                break
            if not _same_float(v, v_fresh):
                core.violation(
                    res, "differs-from-fresh-objective",
                    f"op {idx} ({mode} mode, {doc['cls']}): evaluate(x)="
                    f"{v!r} but a freshly created objective returns "
                    f"{v_fresh!r} for x={x.tolist()}; previous op {prev_op}",
                    mode=mode)
                break
            # ---- independent aggregate of per-case J
            eq_now = real_eq if mode == "raw" else models[model_id]
            js = []
            failed_at = None
            want_blocks = []
            for ci, start in enumerate(
                    np.array(inst.system.training_starting_states)):
                ode = run_ode(start.copy(), eq_now,
                              inst.controller.controller, x.copy(), cd,
                              int(inst.system.training_steps),
                              float(inst.system.training_time))
                j = orc.j_reference(ode, sd, int(inst.system.state_dims_in_j),
                                    float(inst.system.gamma))
                if not 0.0 <= j <= 1e100:
                    failed_at = ci
                    break
                js.append(j)
                want_blocks.append(orc.diff_reference(ode, sd))
            if failed_at is not None:
                want = 1e200
                core.bump(res["faults"], "short_circuit_1e200")
                if failed_at >= 1 and mode == "raw" and supports:
                    core.bump(res["probes"],
                              "short_circuit_after_recorded_case")
            else:
                ja = np.array(js, dtype=float)
                want = float(ja.mean()) if doc["cls"] == "mean" \
                    else float(np.expm1(np.log1p(ja).mean()))
                if not 0.0 <= want <= 1e100:
                    want = 1e200
            if not orc.rel_close(v, want, 1e-9):
                core.violation(
                    res, "differs-from-documented-aggregate",
                    f"op {idx} ({mode} mode, {doc['cls']}): evaluate(x)={v!r}"
                    f" but the documented aggregate of the per-case J "
                    f"{js} (failed case: {failed_at}) is {want!r}")
                break
            if mode == "raw" and supports:
                # what a fresh collecting objective records must be exactly
                # the completed training cases (independent recomputation)
                def _cat(blocks, k):
                    parts = [b[k] for b in blocks if len(b[k])]
                    return np.concatenate(parts) if parts else None
                fa, wa = _cat(fresh_blocks, 0), _cat(want_blocks, 0)
                fb, wb = _cat(fresh_blocks, 1), _cat(want_blocks, 1)
                okb = (fa is None) == (wa is None)
                if okb and fa is not None:
                    okb = _arr_eq(fa, wa) and fb.shape == wb.shape \
                        and np.allclose(fb, wb, rtol=1e-12, atol=0.0,
                                        equal_nan=True)
                if not okb:
                    core.violation(
                        res, "recorded-data-not-the-completed-cases",
                        f"op {idx}: one raw evaluation of x={x.tolist()} "
                        f"records rows {[len(b[0]) for b in fresh_blocks]} "
                        f"that differ from the (state, control, ds/dt) rows "
                        f"of the training cases completed before any "
                        f"failure ({[len(b[0]) for b in want_blocks]} rows)")
                    break
            if mode == "raw":
                ledger.extend(fresh_blocks)
                if xk in raw_seen and xk in model_between:
                    core.bump(res["probes"], "model_eval_between_raw_evals")
                raw_seen[xk] = v
                model_between.discard(xk)
                if doc["cls"] == "le" and last_raw_value_log_garbage:
                    core.bump(res["probes"], "le_after_log1p_garbage")
                last_raw_value_log_garbage = doc["cls"] == "le" \
                    and failed_at is None
            else:
                for k in raw_seen:
                    model_between.add(k)
                if model_id == "real" and xk in raw_seen \
                        and _same_float(raw_seen[xk], v):
                    core.bump(res["probes"], "model_is_truth_equal_values")
            if last_eval_x is not None and (last_eval_x != xk
                                            or prev_op != "evaluate"):
                interesting += 1
            last_eval_x = xk
        elif kind == "initialize":
            obj.initialize()
            if mode == "model":
                core.bump(res["probes"], "initialize_in_model_mode")
            mode, model_id = "raw", None
            ledger.clear()
            res["events"].append(["initialize"])
        elif kind == "set_raw":
            obj.set_raw()
            mode, model_id = "raw", None
            res["events"].append(["set_raw"])
        elif kind == "set_model":
            mid = op["model"]
            if mid not in models:
                models[mid] = model_of(mid, real_eq)
            try:
                obj.set_model(models[mid])
                raised = False
            except ValueError:
                raised = True
            except _ModelFailure:
                # the switch itself called the model and the model failed:
                # then the switch did not happen - the reference stays where
                # it was and the next operations tell whether the object did
                core.bump(res["faults"], "model:raises")
                res["events"].append(["set_model", mid, "model-failure"])
                prev_op = kind
                continue
            if supports:
                if raised:
                    core.violation(res, "set_model-raised",
                                   f"op {idx}: set_model raised although "
                                   f"model mode is supported")
                    break
                mode, model_id = "model", mid
                if mid == "div":
                    core.bump(res["faults"], "model:diverging")
                if mid.startswith("nan_after"):
                    core.bump(res["faults"], "model:nan_after")
            else:
                core.bump(res["faults"], "illegal:set_model_unsupported")
                if not raised:
                    core.violation(
                        res, "illegal-set_model-accepted",
                        f"op {idx}: set_model succeeded on an objective "
                        f"created without model support")
                    break
                core.bump(res["probes"], "illegal_op_raised")
            res["events"].append(["set_model", mid, raised])
        elif kind == "get_differentials" and op.get("alloc_fail") \
                and supports:
            # a failing allocation inside the call (the n-th array that numpy
            # is asked to build there): the call may fail, but what is
            # recorded must stay what it was
            import moptipyapps.dynamic_control.objective as objmod
            real_np = objmod.np
            state = {"n": 0, "fired": False}

            class _FailingNp:
                def __getattr__(self, name):
                    return getattr(real_np, name)

                def concatenate(self, *a, **kw):
                    state["n"] += 1
                    if state["n"] == int(op["alloc_fail"]):
                        state["fired"] = True
                        raise MemoryError("simulated: out of memory")
                    return real_np.concatenate(*a, **kw)
            objmod.np = _FailingNp()
            try:
                obj.get_differentials()
                outcome = "returned"
            except MemoryError:
                outcome = "memory-error"
            except ValueError:
                outcome = "value-error"
            finally:
                objmod.np = real_np
            if state["fired"]:
                core.bump(res["faults"], "alloc_failure_in_get_differentials")
            res["events"].append(["get_differentials", "alloc_fail",
                                  outcome, state["fired"]])
            # (whatever was compacted, the contents are the ledger's; the
            # next get_differentials / ledger check decides)
        elif kind == "get_differentials":
            try:
                got = obj.get_differentials()
                raised = ""
            except ValueError as exc:
                got, raised = None, str(exc)
            if not supports:
                core.bump(res["faults"],
                          "illegal:get_differentials_unsupported")
                if got is not None:
                    core.violation(
                        res, "illegal-get_differentials-accepted",
                        f"op {idx}: get_differentials returned data on an "
                        f"objective created without model support")
                    break
                core.bump(res["probes"], "illegal_op_raised")
            else:
                core.bump(res["probes"], "get_differentials:" + (
                    "0" if not ledger else "1" if len(ledger) == 1
                    else "many"))
                if ledger:
                    if got is None:
                        core.violation(
                            res, "get_differentials-raised",
                            f"op {idx}: raised {raised!r} with "
                            f"{len(ledger)} recorded blocks")
                        break
                    want_sc = np.concatenate([b[0] for b in ledger])
                    want_df = np.concatenate([b[1] for b in ledger])
                    if not (_arr_eq(np.asarray(got[0]), want_sc)
                            and _arr_eq(np.asarray(got[1]), want_df)):
                        core.violation(
                            res, "get_differentials-differs-from-ledger",
                            f"op {idx}: returned {len(got[0])} rows, ledger "
                            f"has {len(want_sc)} (or contents differ)")
                        break
                # with an empty ledger raising (numpy cannot concatenate
                # nothing) and returning empty arrays are both acceptable
                elif got is not None and (len(got[0]) or len(got[1])):
                    core.violation(
                        res, "get_differentials-differs-from-ledger",
                        f"op {idx}: returned {len(got[0])} rows although "
                        f"nothing was recorded since initialize()")
                    break
            res["events"].append(["get_differentials", bool(got is not None)])
        elif kind == "observe":
            # read-only parts of the Component/Objective API, called by
            # moptipy whenever a process (also a nested one) writes its log:
            # they must change neither later values nor the recorded data
            try:
                if op["what"] == "log":
                    from moptipy.utils.logger import InMemoryLogger
                    with InMemoryLogger() as lg:
                        with lg.key_values("F") as kv:
                            obj.log_parameters_to(kv)
                        seen = len(lg.get_log())
                elif op["what"] == "str":
                    seen = len(str(obj)) + len(repr(obj))
                else:
                    seen = [obj.lower_bound(), obj.upper_bound(),
                            obj.is_always_integer()]
                    if seen != [0.0, 1e200, False] and seen != [0.0, 1e100,
                                                                False]:
                        core.bump(res["probes"], "other_bounds")
                    seen = 3
            except Exception as exc:  # noqa: BLE001
                core.violation(res, "observer-raised",
                               f"op {idx}: {op['what']} raised "
                               f"{type(exc).__name__}: {exc}")
                break
            core.bump(res["probes"], "observe:" + op["what"] + ":" + mode)
            res["events"].append(["observe", op["what"], bool(seen)])
        elif kind == "surrogate_solve":
            from moptipy.api.execution import Execution
            from moptipyapps.dynamic_control.surrogate_optimizer import (
                SurrogateOptimizer)
            from moptipyapps.dynamic_control.system_model import SystemModel
            mctrl = Controller("simmodel", sd + cd, sd, (sd + cd) * sd,
                               _njit_funcs()["model_ctrl"])
            sm = SystemModel(inst.system, inst.controller, mctrl)
            space = inst.controller.parameter_space()
            algo = SurrogateOptimizer(
                sm, space, obj, int(op["warmup"]), int(op["train"]), None,
                int(op["on_model"]), None, False)
            hook = {"n": 0, "proc": None, "fired": False}
            from moptipy.api.algorithm import Algorithm

            class Spy(Algorithm):
                def initialize(self):
                    algo.initialize()

                def solve(self, process):
                    hook["proc"] = process
                    hook["in_solve"] = True
                    try:
                        algo.solve(process)
                    finally:
                        hook["in_solve"] = False
                        hook["fes_at_end"] = int(process.get_consumed_fes())

                def __str__(self):
                    return str(algo)

                def log_parameters_to(self, logger):
                    algo.log_parameters_to(logger)
            exe = Execution().set_objective(obj).set_solution_space(space) \
                .set_algorithm(Spy()).set_max_fes(int(op["max_fes"])) \
                .set_rand_seed(int(op["seed"]))
            # cancellation at an arbitrary instant: the k-th switch of the
            # objective into model mode also terminates the outer process
            orig_set_model = obj.set_model
            k_term = op.get("terminate_at_model")

            # every evaluation is observed together with the mode the
            # objective is in: an evaluation booked by the real process must
            # be a real-system evaluation
            calls: list = []
            cur = {"mode": "raw"}
            orig_evaluate, orig_set_raw = obj.evaluate, obj.set_raw

            def hooked_evaluate(x, _o=orig_evaluate):
                calls.append((cur["mode"], bool(hook.get("in_solve")),
                              np.array(x, dtype=float)))
                return _o(x)

            def hooked_set_raw(_o=orig_set_raw):
                _o()
                cur["mode"] = "raw"
            obj.evaluate = hooked_evaluate
            obj.set_raw = hooked_set_raw

            def hooked_set_model(eq, _o=orig_set_model):
                _o(eq)
                cur["mode"] = "model"
                hook["n"] += 1
                if k_term is not None and hook["n"] == int(k_term) \
                        and hook["proc"] is not None:
                    hook["proc"].terminate()
                    hook["fired"] = True
            obj.set_model = hooked_set_model
            try:
                with exe.execute() as proc0:
                    pass
            except Exception:  # noqa: BLE001
                pass
            # (instance attributes removed again: back to the class methods)
            del obj.set_model
            del obj.evaluate
            del obj.set_raw
            res["events"].append(["surrogate_solve", hook["n"],
                                  hook["fired"]])
            raw_in_solve = sum(1 for m, ins, _ in calls if m == "raw" and ins)
            if "fes_at_end" in hook and raw_in_solve != hook["fes_at_end"]:
                core.violation(
                    res, "real-FE-not-a-real-system-evaluation",
                    f"op {idx}: the real process booked {hook['fes_at_end']} "
                    f"evaluations, but {raw_in_solve} evaluations took place "
                    f"while the objective was on the real system (and "
                    f"{sum(1 for m, i, _ in calls if m == 'model' and i)} on "
                    f"a model)")
                break
            if any(m == "model" for m, _, _ in calls):
                core.bump(res["probes"], "surrogate_model_phase_evaluations")
            core.bump(res["probes"], "surrogate_solve")
            if hook["fired"]:
                core.bump(res["faults"], "cancel_in_model_phase")
            # whatever happened inside: the optimizer must hand the
            # objective back in real-system mode with a working initialize();
            # the data it recorded is adopted as the new ledger
            mode, model_id = "raw", None
            try:
                gsc, gdf = obj.get_differentials()
                ledger[:] = [(np.array(gsc), np.array(gdf))]
            except ValueError:
                ledger.clear()
            # ... and that data is exactly what the real-system evaluations
            # of this run record on a fresh objective, in their order
            finst, _ = _build(doc["system"], sysname)
            fresh = cls(finst, True)
            for m, _, xv in calls:
                if m == "raw":
                    fresh.evaluate(xv)
            try:
                wsc, wdf = fresh.get_differentials()
                want_rows = (np.array(wsc), np.array(wdf))
            except ValueError:
                want_rows = None
            have = ledger[0] if ledger else None
            if (want_rows is None) != (have is None) or (
                    have is not None and not (
                        _arr_eq(have[0], want_rows[0])
                        and _arr_eq(have[1], want_rows[1]))):
                core.violation(
                    res, "surrogate-run-data-not-the-real-evaluations",
                    f"op {idx}: after the surrogate run the objective holds "
                    f"{0 if have is None else len(have[0])} recorded rows; "
                    f"its {sum(1 for m, _, _ in calls if m == 'raw')} "
                    f"real-system evaluations record "
                    f"{0 if want_rows is None else len(want_rows[0])} rows "
                    f"on a fresh objective")
                break
        elif kind == "model_objective":
            if supports and sum(len(b[0]) for b in ledger) > 0:
                q = np.array([unhex(v) for v in op["q"]], dtype=float)
                mctrl = Controller("simmodel", sd + cd, sd, (sd + cd) * sd,
                                   _njit_funcs()["model_ctrl"])
                try:
                    mo = ModelObjective(obj, mctrl)
                    mo.begin()
                    val = mo.evaluate(q)
                    mo.end()
                except Exception as exc:  # noqa: BLE001
                    core.violation(res, "model-objective-raised",
                                   f"op {idx}: {type(exc).__name__}: {exc} "
                                   f"with {len(ledger)} recorded blocks")
                    break
                rows = np.concatenate([b[0] for b in ledger])
                dfs = np.concatenate([b[1] for b in ledger])
                Q = q.reshape(sd, sd + cd)
                errs = np.sqrt((((rows @ Q.T) - dfs) ** 2).sum(axis=1))
                want = float(errs.mean())
                res["events"].append(["model_objective", fhex(float(val))
                                      if math.isfinite(val) else repr(val)])
                core.bump(res["probes"], "model_objective_cycle")
                if not orc.rel_close(float(val), want, 1e-7):
                    core.violation(
                        res, "model-objective-value",
                        f"op {idx}: ModelObjective.evaluate={val!r}, RMSE "
                        f"formula on the recorded data gives {want!r}")
                    break
                # get_differentials compacts the object's lists: so does
                # the ledger (contents unchanged)
                ledger[:] = [(rows, dfs)]
            else:
                res["events"].append(["model_objective", "skipped"])
        if res["violation"] is not None:
            break
        if not check_ledger(f"{kind} (op {idx})"):
            break
        prev_op = kind
    res["nontrivial"] = evals >= 2 and interesting >= 1
    return res


# ------------------------------------------------------------------ shrinking

def reductions(doc: dict):
    if doc.get("twin") is not None:
        yield {k: v for k, v in doc.items() if k != "twin"}
        for cand in reductions(doc["twin"]):
            yield {**doc, "twin": cand}
    if doc.get("threads"):
        for i, th in enumerate(doc["threads"]):
            for key, mn in (("picks", 0), ("xs", 1)):
                for cand in core.list_deletions(th[key], mn):
                    ths = [dict(t) for t in doc["threads"]]
                    ths[i][key] = cand
                    yield {**doc, "threads": ths}
    for cand in core.list_deletions(doc["ops"], 1):
        yield {**doc, "ops": cand}
    sysd = doc["system"]
    if "bundled" in sysd:
        return
    if len(sysd["train"]) > 1:
        for cand in core.list_deletions(sysd["train"], 1):
            yield {**doc, "system": {**sysd, "train": cand}}
    if sysd["steps"] > 10:
        yield {**doc, "system": {**sysd, "steps": 10}}
    if sysd["time"] > 1.0:
        yield {**doc, "system": {**sysd, "time": 1.0}}
    if sysd["in_j"] != -1:
        yield {**doc, "system": {**sysd, "in_j": -1}}
    if sysd["blow"] != 1e9:
        yield {**doc, "system": {**sysd, "blow": 1e9}}
    for oi, o in enumerate(doc["ops"]):
        if o["op"] == "evaluate":
            vals = [unhex(v) for v in o["x"]]
            simple = [0.0 if not math.isfinite(v) or abs(v) < 0.5
                      else (1.0 if v > 0 else -1.0) for v in vals]
            if simple != vals and all(math.isfinite(v) for v in vals):
                ops = list(doc["ops"])
                ops[oi] = {**o, "x": [fhex(v) for v in simple]}
                yield {**doc, "ops": ops}
        if o["op"] == "set_model" and o["model"] != "lin:1":
            ops = list(doc["ops"])
            ops[oi] = {**o, "model": "lin:1"}
            yield {**doc, "ops": ops}
