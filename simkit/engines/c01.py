"""C01 - feasibility of every decoded packing, under shared-encoder histories.

Same scenario space as C14 (one encoder object and one or two destination packings
shared by a history of decodings, scribbled scratch/destination state in between,
sizes at the int8/int16/int32 storage boundaries), but the oracle is the independent
feasibility predicate applied to what the decoder actually wrote - not the bottom-left
reference model. A changed heuristic that still packs feasibly is no C01 violation.
"""
from __future__ import annotations

import random

from simkit import core
from simkit.engines import c14, packgen
from simkit.oracles import packing as orc

PROPERTY = "C01"
SIM_TIME_UNIT = c14.SIM_TIME_UNIT
STATE_MEASURE = c14.STATE_MEASURE
RULE = (
    "Scenarios are generated exactly as for C14 (instance classes incl. 1x1 bins, "
    "items as large as the bin, forced rotations, sizes and item counts next to the "
    "int8/int16/int32 limits, shipped instances; 1-40 decodings sharing one encoder "
    "and 1-2 destinations; scribble_dest / scribble_scratch / swap_dest faults). "
    "After every decode the destination is judged by the independent feasibility "
    "predicate (inside the bin, pairwise disjoint, multiplicities, item size in one "
    "of two orientations, bins 1..k, n_bins = k) and the instance dtype must hold "
    "bin_height + item_height and n_items + 1. Non-trivial and distinct as in C14."
    ' The constructor is also offered items that fit in no orientation (what it accepts is decoded and judged) and matrices whose buffer the caller re-uses.')
COMPONENTS = c14.COMPONENTS
ASSUMPTIONS = [
    "the feasibility predicate in simkit/oracles/packing.py is the reading of the "
    "property statement",
    "the universal quantifier over inputs is sampled, not enumerated; what the "
    "simulation adds is the shared-object history and the hostile leftover state",
    "numba, numpy, moptipy are trusted",
]
FAULT_KINDS = [k for k in c14.FAULT_KINDS
               if k != "caller_threads_interleaved"]
PROBES = [p for p in c14.PROBES if p not in (
    "left_stop_support", "left_stop_blocker", "alternations_ge3",
    "first_fit_earlier_bin", "new_bin_after_trying_many", "forced_rotation")] \
    + ["rotated_item_in_output", "item_as_large_as_bin", "one_item_per_bin"]
HARD_CAP_S = 120.0
CHUNK = 16
plan = c14.base_plan


def generate(rng: random.Random, batch: dict) -> dict:
    doc = c14.generate(rng, batch)
    inst = doc["inst"]
    if "resource" not in inst and doc.get("twin") is None \
            and rng.random() < 0.03:
        # "every size the constructor accepts": offer it an item that fits in
        # no orientation; whatever the constructor lets through is decoded
        W, H = inst["W"], inst["H"]
        mn, mx = min(W, H), max(W, H)
        j = rng.randrange(len(inst["items"]))
        items = [list(it) for it in inst["items"]]
        items[j][0] = rng.randint(mn + 1, mx + 2)
        items[j][1] = rng.randint(mn + 1, mx + 2)
        doc = {**doc, "inst": {**inst, "items": items, "candidate": True}}
    return doc


directed = c14.directed
reductions = c14.reductions


def warmup() -> None:
    for doc in directed("quick")[:6]:
        execute(doc)


def execute(doc: dict) -> dict:
    return core.confirm_on_legal_history(doc, _execute_full(doc),
                                         _execute_full, ("scribble_scratch",))


def _execute_full(doc: dict) -> dict:
    """Optionally followed by a twin: another instance with the SAME name,
    its own encoder and destinations (nothing keyed by the name may leak)."""
    name = packgen.scenario_name(doc)
    res = _execute_one(doc, name)
    twin = doc.get("twin")
    if twin is not None and res["violation"] is None:
        r2 = _execute_one(twin, name)
        res["events"].append(["twin"])
        res["events"].extend(r2["events"])
        for key in ("faults", "probes"):
            for k, v in r2[key].items():
                res[key][k] = res[key].get(k, 0) + v
        res["states"].extend(r2["states"])
        res["ops"] += r2["ops"]
        res["sim_time"] += r2["sim_time"]
        res["nontrivial"] = res["nontrivial"] or r2["nontrivial"]
        core.bump(res["faults"], "same_name_other_instance")
        if r2["violation"] is not None:
            res["violation"] = r2["violation"]
            res["violation"]["in_twin"] = True
    return res


def _execute_one(doc: dict, name: str) -> dict:
    import numpy as np
    from moptipyapps.binpacking2d.encodings.ibl_encoding_1 import (
        ImprovedBottomLeftEncoding1)
    from moptipyapps.binpacking2d.encodings.ibl_encoding_2 import (
        ImprovedBottomLeftEncoding2)
    from moptipyapps.binpacking2d.packing_space import PackingSpace

    res = core.new_result()
    try:
        inst = packgen.build_instance(doc["inst"], name)
    except ValueError:
        if not doc["inst"].get("candidate"):
            raise
        # the constructor refused an item that fits in no orientation
        core.bump(res["probes"], "constructor_rejected_unfit_item")
        res["events"].append(["constructor-rejected"])
        return res
    if doc["inst"].get("candidate"):
        core.bump(res["probes"], "constructor_accepted_candidate")
    W, H = int(inst.bin_width), int(inst.bin_height)
    items = [[int(v) for v in row] for row in inst]
    if doc["inst"].get("caller"):
        # judged against what was handed to the constructor, not against an
        # instance that may share the caller's (re-used) buffer
        core.bump(res["faults"], "caller_reuses_item_matrix")
        items = [[int(v) for v in row] for row in doc["inst"]["items"]]
    n_items = int(inst.n_items)
    info = np.iinfo(inst.dtype)
    lo, hi = int(info.min), int(info.max)
    core.bump(res["probes"], f"dtype:{inst.dtype}")
    max_item = max(max(it[0], it[1]) for it in items)
    if hi < max(W, H) + max_item or hi < n_items + 1:
        core.violation(res, "storage-type-too-narrow",
                       f"dtype {inst.dtype} (max {hi}) cannot hold bin+item "
                       f"{max(W, H) + max_item} or n_items+1 {n_items + 1}; "
                       f"W={W} H={H} items={items}")
        return res
    inst_digest = core.digest([W, H, items])[:16]
    space = PackingSpace(inst)
    xdtype = packgen.x_dtype(inst)
    encoder_id = int(doc["encoder"])
    core.bump(res["probes"], f"encoder{encoder_id}")
    if "resource" in doc["inst"]:
        core.bump(res["probes"], "shipped_instance")
    if any(it[0] == W and it[1] == H for it in items):
        core.bump(res["probes"], "item_as_large_as_bin")
    enc = (ImprovedBottomLeftEncoding1 if encoder_id == 1
           else ImprovedBottomLeftEncoding2)(inst)
    dests = [space.create() for _ in range(int(doc["pool"]))]
    for d in dests:
        d.fill(0)
        d.n_bins = -1
    cur = 0
    dirty = "clean"
    just_scribbled = False
    decodes = 0
    fault_before = False
    seen: set = set()
    for op in doc["ops"]:
        kind = op["op"]
        if kind == "swap_dest":
            if len(dests) > 1:
                cur = (cur + 1) % len(dests)
                core.bump(res["faults"], "swap_dest")
                dirty = "swapped"
            res["events"].append(["swap_dest", cur])
            continue
        if kind == "scribble_dest":
            rnd = random.Random(op["vals_seed"])
            y = dests[cur]
            sub = op["kind"]
            if sub == "other_packing":
                xs = [i + 1 for i, it in enumerate(items)
                      for _ in range(it[2])]
                rnd.shuffle(xs)
                rows, nb = orc.bl_decode(W, H, items, xs, encoder_id)
                y[:, :] = np.array(rows, dtype=np.int64).astype(inst.dtype)
                y.n_bins = nb
            elif sub == "blocking":
                for i in range(n_items):
                    y[i, :] = [1 + i % max(1, len(items)),
                               1 + rnd.randrange(0, 3), 0, 0, W, H]
                y.n_bins = rnd.choice([1, 2, 3, n_items])
            else:
                vals = c14._scribble_values(rnd, sub, n_items * 6, lo, hi, W,
                                            H, n_items)
                y[:, :] = np.array(vals, dtype=np.int64).reshape(
                    n_items, 6).astype(inst.dtype)
                y.n_bins = rnd.choice([-1, 0, 1, n_items, hi])
            core.bump(res["faults"], f"scribble_dest:{sub}")
            res["events"].append(["scribble_dest", sub, cur])
            dirty = f"dest:{sub}"
            just_scribbled = True
            continue
        if kind == "scribble_scratch":
            if encoder_id != 2:
                continue
            rnd = random.Random(op["vals_seed"])
            # whatever arrays the encoder object keeps between calls
            # (found generically, so that renaming them changes nothing)
            # (only index arrays of the shape the unchanged tree keeps: one
            # entry per item; anything else an implementation may keep is
            # left alone)
            scratch = [a for a in packgen.scratch_arrays(enc)
                       if a.ndim == 1 and len(a) == n_items
                       and np.issubdtype(a.dtype, np.integer)]
            if len(scratch) < 2:
                continue
            starts = scratch[0]
            ends = scratch[-1]
            sub = op["kind"]
            n = len(starts)
            if sub == "inverted":
                sv = [rnd.randrange(0, n + 1) for _ in range(n)]
                ev = [max(0, s - rnd.randrange(0, 3)) for s in sv]
            elif sub == "wide":
                sv, ev = [0] * n, [n] * n
            elif sub == "extreme":
                sv = [rnd.choice([0, n, n - 1, -1, 1]) for _ in range(n)]
                ev = [rnd.choice([0, n, n - 1, -1, 1]) for _ in range(n)]
            else:
                sv = [rnd.randrange(0, n + 1) for _ in range(n)]
                ev = [rnd.randrange(0, n + 1) for _ in range(n)]
            starts[:] = np.array(sv, dtype=np.int64).astype(starts.dtype)
            ends[:] = np.array(ev, dtype=np.int64).astype(ends.dtype)
            core.bump(res["faults"], f"scribble_scratch:{sub}")
            res["events"].append(["scribble_scratch", sub])
            dirty = f"scratch:{sub}"
            just_scribbled = True
            continue
        if kind == "decode_fails":
            xf = np.array([int(v) for v in op["x"]], dtype=xdtype)
            try:
                enc.decode(xf, np.zeros((n_items, 6), dtype=inst.dtype))
                outcome = "returned"
            except Exception as exc:  # noqa: BLE001
                outcome = type(exc).__name__
            core.bump(res["faults"], "decode_call_fails")
            res["events"].append(["decode_fails", outcome])
            continue
        if kind == "decode_bad":
            # always exactly n_items valid ids (shrunk documents included):
            # the kernels are compiled without bounds checks
            raw = [int(v) for v in op["x"]][:n_items]
            raw += [1] * (n_items - len(raw))
            raw = [(1 + (abs(v) - 1) % len(items)) * (1 if v >= 0 else -1)
                   if v != 0 else 1 for v in raw]
            xb = np.array(raw, dtype=xdtype)
            try:
                enc.decode(xb, dests[cur])
                outcome = "returned"
            except Exception as exc:  # noqa: BLE001
                outcome = type(exc).__name__
            core.bump(res["faults"], "decode_wrong_multiset")
            res["events"].append(["decode_bad", cur, outcome])
            dirty = "after_bad_call"
            just_scribbled = True
            continue
        xl = [int(v) for v in op["x"]]
        x = np.array(xl, dtype=xdtype)
        y = dests[cur]
        try:
            enc.decode(x, y)
        except Exception as exc:  # noqa: BLE001
            core.violation(
                res, "decode-raised",
                f"encoder {encoder_id}, W={W}, H={H}, items={items}: decode "
                f"of the valid permutation {xl} raised "
                f"{type(exc).__name__}: {exc}; dirty={dirty}",
                encoder=encoder_id, dirty=dirty)
            break
        res["ops"] += 1
        decodes += 1
        got = [[int(v) for v in row] for row in y]
        got_n = y.n_bins
        xd = core.digest(xl)[:12]
        res["events"].append(["decode", cur, xd, core.digest(got)[:16],
                              int(got_n) if isinstance(got_n, int)
                              else repr(got_n)])
        res["states"].append(f"{inst_digest}|{encoder_id}|{dirty}|{xd}")
        if just_scribbled:
            core.bump(res["probes"], "scribble_immediately_before_decode")
            fault_before = True
        if xd in seen:
            core.bump(res["probes"], "same_x_again")
        seen.add(xd)
        bad = orc.infeasibility(W, H, items, got, got_n)
        if bad:
            core.violation(
                res, f"infeasible-packing:{bad[0]}",
                f"encoder {encoder_id}, W={W}, H={H}, items={items}, x={xl}: "
                f"decoded packing violates {bad}: rows={got} n_bins="
                f"{got_n!r}; dirty={dirty}", failing=bad)
            break
        if got_n > 1:
            core.bump(res["probes"], "multi_bin")
        if got_n == n_items and n_items > 1:
            core.bump(res["probes"], "one_item_per_bin")
        for r in got:
            w0, h0 = items[r[0] - 1][0], items[r[0] - 1][1]
            if (r[4] - r[2], r[5] - r[3]) == (h0, w0) and w0 != h0:
                core.bump(res["probes"], "rotated_item_in_output")
                break
        just_scribbled = False
        dirty = "used"
    res["sim_time"] = float(res["ops"])
    res["nontrivial"] = decodes >= 2 and (fault_before or len(seen) >= 2)
    return res
