"""C17 - seeded instance generation: decode/evaluate histories, witness packings."""
from __future__ import annotations

import math
import random

from simkit import core
from simkit.core import fhex, unhex
from simkit.engines import packgen
from simkit.oracles import instgen as og
from simkit.oracles import packing as porc

PROPERTY = "C17"
SIM_TIME_UNIT = "inner optimisation runs started by hardness evaluations"
STATE_MEASURE = ("distinct (template digest, slack pairs, op kind, vector class, "
                 "position in history class) tuples plus decoded-instance digests")
RULE = (
    "Scenario = a template (shipped instance or small synthetic one incl. 1-wide "
    "items), an x-dimension 2(n_items-min_bins)+2k with k slack pairs, one "
    "InstanceDecoder and one or two Hardness/ErrorsAndHardness objects with small "
    "inner budgets, and 2-30 operations: decode(x) into a fresh or reused "
    "receiver with x uniform in [-1,1]^d, snapped to -1/0/1 and their float "
    "neighbours (what a clipped optimiser proposes), or equal to an earlier x; "
    "errors / hardness / errors-and-hardness evaluations on decoded instances, on "
    "the template, and repeated after other instances of the same name were "
    "evaluated. Every decoded instance is checked against the template "
    "invariants with a packing witness. Non-trivial = at least two operations "
    "share the decoder or an objective object and a slack pair, a snapped "
    "coordinate or a repeated evaluation occurred; distinct = distinct "
    "scenario-document digests."
    ' Further dimensions: decodes that fail half-way between valid ones, vector lengths that vary per decode, a seed derivation that fails once, a differently configured objective used in turns, and two caller threads sharing one decoder under the line-event scheduler.')
COMPONENTS = {
    "real": ["InstanceSpace, InstanceDecoder.decode/get_x_dim",
             "instgen.errors.Errors, Hardness, ErrorsAndHardness (nested seeded "
             "Execution runs: RLS / random sampling, encoder 1, BinCount, "
             "BinCountAndLastSkyline)", "binpacking2d Instance constructor (both "
             "lower bounds)", "both encoders (witness search fallback)"],
    "stub": ["the search algorithm proposing vectors (scripted history)"],
}
ASSUMPTIONS = [
    "packability is shown by a witness layout judged by the independent packing "
    "predicate; when no witness is found within the budget the scenario is "
    "recorded as undecided, never as a violation",
    "moptipy (Execution, RLS, rand_seeds_from_str), numpy PCG64 are trusted",
    "fresh-interpreter replay under another PYTHONHASHSEED is done by the "
    "driver's determinism self-test on a sample",
]
FAULT_KINDS = ["same_name_other_template", "snapped_coordinates", "repeat_vector", "reused_receiver",
               "slack_pairs>=2", "second_objective_object",
               "other_objective_configuration", "caller_threads_interleaved",
               "failed_decode_between_valid_ones", "vector_length_varies",
               "seed_derivation_failed_once",
               "reevaluate_after_other_instance"]
PROBES = ["slack_cut_refused_for_area", "direction_switched_after_wrap",
          "equal_items_merged", "neighbour_item_tried", "witness:documented",
          "errors_on_template_zero", "hardness_repeat_equal",
          "template:shipped", "template:synthetic", "slack_pairs:0"]
HARD_CAP_S = 120.0
CHUNK = 4
SHIPPED = ["a04", "beng01", "cl01_020_01", "cl05_020_03", "asqas08", "a08",
           "cl02_020_03"]


def plan(tier: str) -> list:
    if tier == "quick":
        return [{"name": "decode", "n": 6000, "hardness_p": 0.0,
                 "max_ops": 20},
                {"name": "objectives", "n": 800, "hardness_p": 0.5,
                 "max_ops": 12},
                {"name": "threads", "n": 400, "hardness_p": 0.0,
                 "max_ops": 3, "threads": True}]
    return [{"name": "decode", "n": 400000, "hardness_p": 0.0, "max_ops": 30},
            {"name": "objectives", "n": 40000, "hardness_p": 0.5,
             "max_ops": 20},
            {"name": "threads", "n": 20000, "hardness_p": 0.0,
             "max_ops": 3, "threads": True}]


def warmup() -> None:
    for doc in directed("quick")[:2]:
        execute(doc)


# ------------------------------------------------------------------ generation

def _template_ok(t: dict) -> bool:
    from moptipyapps.binpacking2d.instance import Instance
    from moptipyapps.binpacking2d.instgen.instance_space import InstanceSpace
    try:
        i = Instance("tmpl", t["W"], t["H"], t["items"])
        # the space only takes templates whose items fit unrotated
        InstanceSpace(i)
    except Exception:  # noqa: BLE001
        return False
    return int(i.total_item_area) <= 1_000_000_000


def gen_template(rng: random.Random) -> dict:
    if rng.random() < 0.35:
        return {"resource": rng.choice(SHIPPED)}
    if rng.random() < 0.06:
        # every item needs a bin of its own: the lower bound equals the item
        # count and the vector consists of slack pairs only
        W, H = rng.randint(2, 24), rng.randint(2, 24)
        items = []
        for _ in range(rng.randint(1, 3)):
            w = W if rng.random() < 0.5 else rng.randint(W // 2 + 1, W)
            h = H if w < W or rng.random() < 0.5 \
                else rng.randint(H // 2 + 1, H)
            items.append([w, h, rng.choice([1, 1, 2])])
        t = {"W": W, "H": H, "items": items}
        if _template_ok(t):
            n, mb = _dims(t)
            if n == mb:
                t["suffix"] = rng.choice(["", "", "n"])
                return t
    for _ in range(50):
        W, H = rng.randint(2, 24), rng.randint(2, 24)
        items = []
        for _ in range(rng.randint(1, 5)):
            r = rng.random()
            if r < 0.25:
                w, h = 1, rng.randint(1, H)
            elif r < 0.4:
                w, h = W, rng.randint(1, H)
            else:
                w, h = rng.randint(1, W), rng.randint(1, H)
            if w > max(W, H) or h > max(W, H) or (
                    w > min(W, H) and h > min(W, H)):
                continue
            items.append([w, h, rng.choice([1, 1, 2, 3])])
        if not items:
            continue
        while sum(i[2] for i in items) > 10:
            items[-1][2] -= 1
            if items[-1][2] == 0:
                items.pop()
        t = {"W": W, "H": H, "items": items}
        if sum(i[2] for i in items) >= 2 and _template_ok(t):
            if rng.random() < 0.15:
                t["suffix"] = rng.choice(["n", "n", "nn", "_n"])
            return t
    return {"W": 5, "H": 4, "items": [[2, 3, 2], [1, 4, 1]]}


def gen_vec(rng: random.Random, d: int, earlier: list) -> tuple[list, str]:
    r = rng.random()
    if earlier and r < 0.15:
        return list(rng.choice(earlier)), "repeat"
    if r < 0.45:
        snaps = [-1.0, 0.0, 1.0, math.nextafter(-1.0, 0.0),
                 math.nextafter(1.0, 0.0), math.nextafter(0.0, 1.0),
                 math.nextafter(0.0, -1.0), -0.0, 0.5, -0.5]
        p = rng.choice([0.2, 0.5, 1.0])
        return [rng.choice(snaps) if rng.random() < p
                else rng.uniform(-1.0, 1.0) for _ in range(d)], "snapped"
    return [rng.uniform(-1.0, 1.0) for _ in range(d)], "uniform"


def _dims(template: dict) -> tuple[int, int]:
    inst = packgen.build_instance(
        template if "resource" in template else {**template, "name": "tmpl"})
    n = int(inst.n_items)
    return n, min(int(inst.lower_bound_bins), n)


def _generate_threads(rng: random.Random, batch: dict) -> dict:
    """Two caller threads decoding at the same time with ONE decoder object
    (it keeps no state between calls; the bundled experiment shares it through
    the Problem object) or with a decoder each."""
    while True:
        template = gen_template(rng)
        if "resource" not in template:
            n_items, min_bins = _dims(template)
            if n_items > min_bins and n_items <= 12:
                break
    k = rng.choice([0, 1, 2])
    d = 2 * (n_items - min_bins) + 2 * k
    threads = []
    for _ in range(2):
        xs = []
        for _ in range(rng.randint(1, batch["max_ops"])):
            x, _how = gen_vec(rng, d, xs)
            xs.append(x)
        threads.append({"xs": [[fhex(v) for v in x] for x in xs], "picks": [
            [rng.random(), rng.random(), rng.random()]
            for _ in range(rng.choice([1, 2, 4, 8]))]})
    return {"template": template, "k": k, "ops": [],
            "hardness": {"max_fes": 20, "n_runs": 1},
            "threads": threads, "share_decoder": rng.random() < 0.7}


def generate(rng: random.Random, batch: dict, depth: int = 0) -> dict:
    if batch.get("threads"):
        return _generate_threads(rng, batch)
    doc = _generate(rng, batch)
    if depth == 0 and "resource" not in doc["template"] \
            and rng.random() < 0.12:
        twin = _generate(rng, batch)
        if "resource" not in twin["template"]:
            doc["twin"] = twin
    return doc


def _generate(rng: random.Random, batch: dict) -> dict:
    template = gen_template(rng)
    n_items, min_bins = _dims(template)
    k = rng.choice([0, 1, 2, 2, 3, 8])
    if rng.random() < 0.2:
        slack = rng.choice([0.125, 0.25])
        k = int(slack * (n_items - min_bins) + 0.5)
    if n_items == min_bins and k == 0:
        k = rng.choice([1, 2, 3])     # a vector needs at least one entry
    d = 2 * (n_items - min_bins) + 2 * k
    with_h = rng.random() < batch["hardness_p"]
    hard = {"max_fes": rng.choice([20, 30, 60]), "n_runs": rng.choice([1, 2, 3])}
    ops = []
    earlier: list = []
    n_ops = rng.randint(2, batch["max_ops"])
    n_dec = 0
    for _ in range(n_ops):
        r = rng.random()
        if n_dec == 0 or r < (0.5 if with_h else 0.85):
            if n_dec > 0 and rng.random() < 0.06:
                # a call that fails half-way (vector too short / NaN inside)
                # between valid ones on the same decoder
                x, _ = gen_vec(rng, d, earlier)
                ops.append({"op": "decode_bad", "x": [fhex(v) for v in x],
                            "kind": rng.choice(["short", "nan"])})
                continue
            ke = 0
            rr = rng.random()
            if rr < 0.05:
                x, how = [0.0] * d, "zeros"
            elif rr < 0.10 and earlier:
                # an earlier vector behind two more zero entries: one more
                # slack pair than the scenario's other vectors
                x, how, ke = [0.0, 0.0] + list(rng.choice(earlier))[:d], \
                    "zero_prefixed", 1
            elif rr < 0.14:
                x, how = gen_vec(rng, d + 2, earlier)
                ke = 1
            else:
                x, how = gen_vec(rng, d, earlier)
            if ke == 0:
                earlier.append(x)
            op = {"op": "decode", "x": [fhex(v) for v in x],
                  "how": how, "reuse": rng.random() < 0.5}
            if ke:
                op["k_extra"] = ke
            ops.append(op)
            n_dec += 1
        else:
            on = "template" if rng.random() < 0.3 \
                else f"decoded:{rng.randrange(n_dec)}"
            if with_h:
                kind = rng.choice(["errors", "hardness", "hardness", "both"])
            else:
                kind = "errors"
            op = {"op": kind, "on": on, "obj": rng.choice([0, 0, 1, 2])}
            if kind != "errors" and rng.random() < 0.08:
                op["seed_fault"] = True    # seed derivation fails once
            ops.append(op)
    return {"template": template, "k": k, "hardness": hard, "ops": ops}


def directed(tier: str) -> list:
    docs = []
    a1 = math.nextafter(1.0, 0.0)
    # a04 with many slack pairs at extreme values (doctest-like)
    for k, vals in ((8, [0.3, -0.7]), (8, [a1, a1]), (3, [-1.0, 1.0]),
                    (2, [0.0, 0.0])):
        d = 2 * (16 - 3) + 2 * k
        x = [vals[i % 2] for i in range(d)]
        docs.append({"template": {"resource": "a04"}, "k": k,
                     "hardness": {"max_fes": 20, "n_runs": 1},
                     "ops": [{"op": "decode", "x": [fhex(v) for v in x],
                              "how": "snapped", "reuse": False},
                             {"op": "errors", "on": "decoded:0", "obj": 0},
                             {"op": "errors", "on": "template", "obj": 0}]})
    # slack pairs large enough that two cuts exceed one bin area if each is
    # budgeted against the initial area
    d = 2 * (20 - 7) + 2 * 8
    x = [0.9 if i % 2 == 0 else 0.95 for i in range(d)]
    docs.append({"template": {"resource": "cl01_020_01"}, "k": 8,
                 "hardness": {"max_fes": 20, "n_runs": 1},
                 "ops": [{"op": "decode", "x": [fhex(v) for v in x],
                          "how": "uniform", "reuse": False}]})
    small = {"W": 6, "H": 5, "items": [[1, 5, 2], [3, 2, 2], [6, 1, 1]]}
    n_items, min_bins = 5, None
    docs.append({"template": small, "k": 2,
                 "hardness": {"max_fes": 20, "n_runs": 2},
                 "ops": [{"op": "decode", "x": "auto:0.37", "how": "uniform",
                          "reuse": False},
                         {"op": "hardness", "on": "decoded:0", "obj": 0},
                         {"op": "decode", "x": "auto:-0.61", "how": "uniform",
                          "reuse": True},
                         {"op": "hardness", "on": "decoded:1", "obj": 0},
                         {"op": "hardness", "on": "decoded:0", "obj": 0},
                         {"op": "both", "on": "decoded:0", "obj": 1},
                         {"op": "both", "on": "template", "obj": 1},
                         {"op": "both", "on": "decoded:0", "obj": 1},
                         {"op": "hardness", "on": "decoded:0", "obj": 1},
                         {"op": "errors", "on": "template", "obj": 0}]})
    # seeds must follow the instance name, whatever was evaluated before
    docs.append({"template": small, "k": 1,
                 "hardness": {"max_fes": 30, "n_runs": 3},
                 "ops": [{"op": "decode", "x": "auto:0.83", "how": "uniform",
                          "reuse": False},
                         {"op": "hardness", "on": "template", "obj": 0},
                         {"op": "hardness", "on": "decoded:0", "obj": 0},
                         {"op": "hardness", "on": "decoded:0", "obj": 1},
                         {"op": "hardness", "on": "template", "obj": 1},
                         {"op": "both", "on": "template", "obj": 0},
                         {"op": "both", "on": "decoded:0", "obj": 0},
                         {"op": "both", "on": "decoded:0", "obj": 1}]})
    # ... and whatever a differently configured objective did in between
    docs.append({"template": small, "k": 1,
                 "hardness": {"max_fes": 20, "n_runs": 2},
                 "ops": [{"op": "decode", "x": "auto:0.41", "how": "uniform",
                          "reuse": False},
                         {"op": "hardness", "on": "decoded:0", "obj": 0},
                         {"op": "hardness", "on": "decoded:0", "obj": 2},
                         {"op": "hardness", "on": "decoded:0", "obj": 0},
                         {"op": "both", "on": "template", "obj": 0},
                         {"op": "both", "on": "template", "obj": 2},
                         {"op": "both", "on": "template", "obj": 0},
                         {"op": "hardness", "on": "decoded:0", "obj": 2}]})
    return docs


# ------------------------------------------------------------------ execution

def _vec(xdoc, d: int) -> list:
    if isinstance(xdoc, str) and xdoc.startswith("auto:"):
        v = float(xdoc[5:])
        return [v if i % 2 == 0 else -v * 0.7 for i in range(d)]
    vals = [unhex(v) for v in xdoc]
    if len(vals) < d:
        vals = vals + [0.0] * (d - len(vals))
    return vals[:d]


def _find_witness(W, H, items, min_bins, seed: int, budget: int):
    """Search a packing into min_bins bins with the reference BL model."""
    rnd = random.Random(seed)
    base = [i + 1 for i, it in enumerate(items) for _ in range(it[2])]
    best = None
    base.sort(key=lambda i: -(items[i - 1][0] * items[i - 1][1]))
    cur = list(base)
    for trial in range(budget):
        if trial > 0:
            if trial % 7 == 0:
                rnd.shuffle(cur)
            else:
                a, b = rnd.randrange(len(cur)), rnd.randrange(len(cur))
                cur[a], cur[b] = cur[b], cur[a]
                if rnd.random() < 0.3:
                    cur[a] = -cur[a]
        for enc in (2, 1):
            rows, nb = porc.bl_decode(W, H, items, cur, enc)
            if nb <= min_bins:
                return rows, nb
            if best is None or nb < best:
                best = nb
    return None, best


def _execute_threads(doc: dict) -> dict:
    """Every instance a thread decodes must be the one it gets alone."""
    import os

    import numpy as np
    from moptipyapps.binpacking2d.instgen.inst_decoding import InstanceDecoder
    from moptipyapps.binpacking2d.instgen.instance_space import InstanceSpace
    res = core.new_result()
    tdoc = doc["template"]
    name = "t" + core.digest(tdoc)[:10]
    pre = core.Preempt((os.sep + "moptipyapps" + os.sep, ))
    n_items, min_bins = _dims(tdoc)
    d = 2 * (n_items - min_bins) + 2 * int(doc["k"])

    def bodies():
        template = packgen.build_instance({**tdoc, "name": name})
        space = InstanceSpace(template)
        shared = InstanceDecoder(space) if doc.get("share_decoder") else None
        out = []
        for th in doc["threads"]:
            xs = [np.array(_vec(x, d), dtype=float) for x in th["xs"]]

            def body(xs=xs):
                dec = shared if shared is not None else InstanceDecoder(space)
                got = []
                for x in xs:
                    y: list = []
                    dec.decode(x, y)
                    got.append(y[0].to_compact_str())
                return got
            out.append(body)
        return out
    alone, points = [], []
    for ti, th in enumerate(doc["threads"]):
        out, table = pre.profile(bodies()[ti])
        alone.append(out)
        points.append(core.Preempt.pick_points(table, th["picks"]))
        res["ops"] += len(th["xs"])
    got, switches = pre.run(bodies(), points)
    core.bump(res["faults"], "caller_threads_interleaved")
    if doc.get("share_decoder"):
        core.bump(res["probes"], "threads_share_decoder")
    if switches >= 2:
        core.bump(res["probes"], "thread_switches>=2")
    res["events"].append(["threads", switches,
                          [core.digest(a)[:16] for a in alone]])
    for i, (a, g) in enumerate(zip(alone, got)):
        if isinstance(g, BaseException):
            core.violation(res, "decode-raised-or-invalid",
                           f"thread {i}: {type(g).__name__}: {g} while "
                           f"another thread decoded ({switches} switches)")
            break
        if a != g:
            core.violation(
                res, "concurrent-decode-differs-from-sequential",
                f"thread {i}: decoded {g} while another thread decoded "
                f"({switches} switches, shared decoder: "
                f"{bool(doc.get('share_decoder'))}), {a} alone; template "
                f"{tdoc}")
            break
    res["sim_time"] = 0.0
    res["nontrivial"] = switches >= 1
    return res


def execute(doc: dict) -> dict:
    """Optionally followed by a twin: a different template with the SAME name,
    with its own space, decoder and objective objects."""
    if doc.get("threads"):
        return _execute_threads(doc)
    tdoc0 = doc["template"]
    # generated instances are used as templates again: names ending in "n"
    name = None if "resource" in tdoc0 else "t" + core.digest(tdoc0)[:10] \
        + tdoc0.get("suffix", "")
    res = _execute_one(doc, name)
    twin = doc.get("twin")
    if twin is not None and name is not None and res["violation"] is None:
        r2 = _execute_one(twin, name)
        res["events"].append(["twin"])
        res["events"].extend(r2["events"])
        for key in ("faults", "probes"):
            for k, v in r2[key].items():
                res[key][k] = res[key].get(k, 0) + v
        res["states"].extend(r2["states"])
        res["ops"] += r2["ops"]
        res["sim_time"] += r2["sim_time"]
        res["nontrivial"] = res["nontrivial"] or r2["nontrivial"]
        core.bump(res["faults"], "same_name_other_template")
        if r2["violation"] is not None:
            res["violation"] = r2["violation"]
            res["violation"]["in_twin"] = True
    return res


def _execute_one(doc: dict, tname) -> dict:
    import numpy as np
    from moptipyapps.binpacking2d.instance import Instance
    from moptipyapps.binpacking2d.instgen.errors import Errors
    from moptipyapps.binpacking2d.instgen.errors_and_hardness import (
        ErrorsAndHardness)
    from moptipyapps.binpacking2d.instgen.hardness import Hardness
    from moptipyapps.binpacking2d.instgen.inst_decoding import InstanceDecoder
    from moptipyapps.binpacking2d.instgen.instance_space import InstanceSpace

    res = core.new_result()
    tdoc = doc["template"]
    template = packgen.build_instance(
        tdoc if "resource" in tdoc
        else {**{k: v for k, v in tdoc.items() if k != "suffix"},
              "name": tname or ("t" + core.digest(tdoc)[:10]
                                + tdoc.get("suffix", ""))})
    core.bump(res["probes"], "template:shipped" if "resource" in tdoc
              else "template:synthetic")
    space = InstanceSpace(template)
    decoder = InstanceDecoder(space)
    W, H = int(template.bin_width), int(template.bin_height)
    n_items = int(template.n_items)
    min_bins = min(int(template.lower_bound_bins), n_items)
    k = int(doc["k"])
    d = 2 * (n_items - min_bins) + 2 * k
    tdigest = core.digest([W, H, [[int(v) for v in r] for r in template]])[:12]
    if k >= 2:
        core.bump(res["faults"], "slack_pairs>=2")
    if k == 0:
        core.bump(res["probes"], "slack_pairs:0")
    # Templates in which every item needs its own bin: the decoder's
    # get_x_dim refuses them (it wants room for at least one split, and the
    # hardness objective refuses the resulting one-item-per-bin instances),
    # so no vector length is admissible and there is nothing to decide. If
    # the code under test admits such a template, everything below applies.
    own_bins = n_items == min_bins
    if own_bins:
        core.bump(res["probes"], "template:every_item_its_own_bin")
        try:
            decoder.get_x_dim(0)
        except ValueError:
            core.bump(res["probes"], "template_refused_by_get_x_dim")
            res["events"].append(["template-refused"])
            return res
    if int(space.min_bins) != min_bins or int(space.n_items) != n_items \
            or decoder.get_x_dim(0) != 2 * (n_items - min_bins):
        core.violation(res, "space-does-not-mirror-template",
                       f"space min_bins={space.min_bins} n_items="
                       f"{space.n_items} for "
                       f"template with {n_items} items / {min_bins} bins")
        return res
    base_dim = n_items - min_bins
    for slack in (0, 0.125, 0.25, 0.5, 1, 2.0):
        want_dim = 2 * (base_dim + int(slack * base_dim + 0.5))
        if decoder.get_x_dim(slack) != want_dim:
            core.violation(res, "wrong-vector-dimension",
                           f"get_x_dim({slack}) = {decoder.get_x_dim(slack)}"
                           f", documented 2*(n_items-min_bins+round(slack*"
                           f"(n_items-min_bins))) = {want_dim}")
            return res
    hp = doc["hardness"]
    objs: dict = {}

    def get_obj(kind: str, slot: int):
        key = (kind, slot)
        if key not in objs:
            if kind == "errors":
                objs[key] = Errors(space)
            elif kind == "hardness":
                objs[key] = Hardness(int(hp["max_fes"]),
                                     int(hp["n_runs"]) + (slot == 2))
            else:
                objs[key] = ErrorsAndHardness(space, int(hp["max_fes"]),
                                              int(hp["n_runs"]) + (slot == 2))
            if slot > 0:
                core.bump(res["faults"], "second_objective_object")
            if slot == 2:
                # a differently configured objective (one more inner run per
                # setup) used in turns with the others in the same process
                core.bump(res["faults"], "other_objective_configuration")
        return objs[key]

    decoded: list = []          # Instance per decode op
    by_x: dict = {}
    values: dict = {}           # (kind, instance string) -> value
    last_evaluated: dict = {}   # kind/slot -> last instance string
    receiver: list = []
    shared_ops = 0
    spice = False
    st = og.CutStats()
    bin_area = W * H
    for idx, op in enumerate(doc["ops"]):
        kind = op["op"]
        if kind == "decode_bad":
            xs = _vec(op["x"], d)
            if op["kind"] == "short":
                xs = xs[:max(0, d - 3)]
            elif xs:
                xs[len(xs) // 2] = float("nan")
            try:
                decoder.decode(np.array(xs, dtype=float), [])
                outcome = "returned"
            except Exception as exc:  # noqa: BLE001
                outcome = type(exc).__name__
            # not an admissible vector: nothing to judge about this call -
            # but the decoder object goes on being used
            core.bump(res["faults"], "failed_decode_between_valid_ones")
            res["events"].append(["decode_bad", op["kind"], outcome])
            continue
        if kind == "decode":
            xs = _vec(op["x"], d + 2 * int(op.get("k_extra", 0)))
            if op.get("k_extra"):
                core.bump(res["faults"], "vector_length_varies")
            x = np.array(xs, dtype=float)
            xkey = core.digest([fhex(v) for v in xs])[:16]
            if op.get("how") == "snapped":
                core.bump(res["faults"], "snapped_coordinates")
                spice = True
            y = receiver if op.get("reuse") else []
            if op.get("reuse") and len(receiver) > 0:
                core.bump(res["faults"], "reused_receiver")
            x_before = x.copy()
            try:
                decoder.decode(x, y)
                inst = y[0]
                space.validate(y)
            except Exception as exc:  # noqa: BLE001
                core.violation(res, "decode-raised-or-invalid",
                               f"op {idx}: {type(exc).__name__}: {exc}; "
                               f"template={tdoc} k={k} x={xs}")
                break
            receiver = y
            res["ops"] += 1
            shared_ops += 1
            if not np.array_equal(x, x_before):
                core.violation(res, "decode-modified-its-input",
                               f"op {idx}: x changed during decode")
                break
            items = [[int(v) for v in r] for r in inst]
            cs = inst.to_compact_str()
            res["events"].append(["decode", xkey, core.digest(cs)[:16]])
            res["states"].append(f"{tdigest}|{k}|decode|{op.get('how')}|"
                                 f"{'first' if not decoded else 'later'}")
            res["states"].append("inst|" + core.digest(cs)[:16])
            decoded.append(inst)
            where = (f"op {idx}: template={tdoc} k={k} x="
                     f"{[float(v) for v in xs]} -> {cs}")
            # ---- same vector => same instance
            if xkey in by_x:
                core.bump(res["faults"], "repeat_vector")
                spice = True
                if by_x[xkey] != cs:
                    core.violation(res, "same-vector-different-instance",
                                   f"{where} but earlier {by_x[xkey]}")
                    break
            by_x[xkey] = cs
            # ---- template invariants
            if inst.name != template.name + "n":
                core.violation(res, "wrong-name", where)
                break
            if int(inst.bin_width) != W or int(inst.bin_height) != H:
                core.violation(res, "wrong-bin-size", where)
                break
            if int(inst.n_items) != n_items or sum(
                    i[2] for i in items) != n_items:
                core.violation(res, "wrong-item-count",
                               f"{where}: {inst.n_items} items, template "
                               f"has {n_items}")
                break
            area = sum(w * h * m for w, h, m in items)
            if not (min_bins - 1) * bin_area < area <= min_bins * bin_area:
                core.violation(
                    res, "area-no-longer-requires-min-bins",
                    f"{where}: total item area {area} is not in "
                    f"({(min_bins - 1) * bin_area}, {min_bins * bin_area}] "
                    f"for {min_bins} bins of {W}x{H}", k=k)
                break
            if int(inst.lower_bound_bins) != min_bins:
                core.violation(
                    res, "lower-bound-differs-from-min-bins",
                    f"{where}: lower_bound_bins={inst.lower_bound_bins}, "
                    f"template needs {min_bins}")
                break
            # ---- packable into min_bins bins: witness
            got = og.instance_multiset(items)
            witness = None
            for flag, name in ((True, "documented"), (False, "as-coded")):
                try:
                    lay = og.cut_layout(W, H, min_bins, n_items, xs, flag,
                                        st if flag else None)
                except ValueError:
                    continue
                if og.multiset((r[3], r[4]) for r in lay) == got:
                    witness = (name, lay)
                    break
            feasible = False
            if witness is not None:
                # map layout rectangles to item ids of the instance
                ids: dict = {}
                for t, (w, h, m) in enumerate(items):
                    ids.setdefault((w, h), []).extend([t + 1] * m)
                rows = []
                for (b, lft, bot, w, h) in witness[1]:
                    rows.append([ids[(w, h)].pop(), b, lft, bot, lft + w,
                                 bot + h])
                nb = len({r[1] for r in rows})
                bad = porc.infeasibility(W, H, items, rows, nb)
                feasible = not bad and nb <= min_bins
                if feasible:
                    core.bump(res["probes"], "witness:documented"
                              if witness[0] == "documented"
                              else "witness:as-coded")
            if not feasible:
                rows, nb = _find_witness(W, H, items, min_bins,
                                         1 + idx, 120)
                if rows is not None and not porc.infeasibility(
                        W, H, items, rows, nb):
                    core.bump(res["probes"], "witness:searched")
                else:
                    core.bump(res["probes"], "undecided:no_witness")
                    res["events"].append(["undecided", idx])
            if len(items) < n_items:
                core.bump(res["probes"], "equal_items_merged")
        else:
            on = op["on"]
            if on == "template":
                inst = template
            else:
                i = int(on.split(":")[1])
                if not decoded:
                    continue
                inst = decoded[i % len(decoded)]
            slot = int(op.get("obj", 0))
            obj = get_obj(kind, slot)
            cs = inst.to_compact_str()
            if op.get("seed_fault") and kind != "errors":
                # the derivation of the inner runs' seeds fails once; the
                # call fails with it, the repeated call must be right
                import moptipyapps.binpacking2d.instgen.hardness as hmod
                real = hmod.rand_seeds_from_str
                fired = {"n": 0}

                def failing(*a, **kw):
                    fired["n"] += 1
                    raise OSError("simulated: seed derivation failed")
                hmod.rand_seeds_from_str = failing
                try:
                    obj.evaluate(inst)
                except OSError:
                    pass
                except Exception:  # noqa: BLE001
                    pass
                finally:
                    hmod.rand_seeds_from_str = real
                if fired["n"]:
                    core.bump(res["faults"], "seed_derivation_failed_once")
                res["events"].append(["seed_fault", fired["n"]])
            try:
                v = obj.evaluate(inst if idx % 2 == 0 else [inst])
            except Exception as exc:  # noqa: BLE001
                core.violation(res, "objective-raised",
                               f"op {idx}: {kind}({on}) raised "
                               f"{type(exc).__name__}: {exc}; instance {cs}")
                break
            res["ops"] += 1
            shared_ops += 1
            if kind != "errors":
                res["sim_time"] += 3 * int(hp["n_runs"])
            res["events"].append([kind, on, slot, fhex(float(v))
                                  if isinstance(v, float) and math.isfinite(v)
                                  else repr(v)])
            res["states"].append(f"{tdigest}|{k}|{kind}|{on.split(':')[0]}|"
                                 f"{slot}")
            if not isinstance(v, (int, float)) or not 0.0 <= v <= 1.0:
                core.violation(res, "objective-out-of-range",
                               f"op {idx}: {kind}({on})={v!r} not in [0,1]; "
                               f"instance {cs}")
                break
            if kind == "errors" and on == "template":
                if v != 0.0:
                    core.violation(res, "errors-on-template-not-zero",
                                   f"op {idx}: errors(template)={v!r}; "
                                   f"template {cs}")
                    break
                core.bump(res["probes"], "errors_on_template_zero")
            key = (kind, cs, slot == 2 and kind != "errors")
            lk = (kind, slot)
            if key in values:
                spice = True
                if lk in last_evaluated and last_evaluated[lk] != cs:
                    core.bump(res["faults"],
                              "reevaluate_after_other_instance")
                if values[key] != v:
                    core.violation(
                        res, "repeated-evaluation-differs",
                        f"op {idx}: {kind}({on}) returned {v!r} but the "
                        f"same instance evaluated earlier to "
                        f"{values[key]!r}; instance {cs}; hardness={hp}",
                        objective=kind)
                    break
                if kind != "errors":
                    core.bump(res["probes"], "hardness_repeat_equal")
            values[key] = v
            last_evaluated[lk] = cs
    if st.slack_refused_area:
        core.bump(res["probes"], "slack_cut_refused_for_area",
                  st.slack_refused_area)
    if st.direction_switch:
        core.bump(res["probes"], "direction_switched_after_wrap",
                  st.direction_switch)
    if st.neighbour_tried:
        core.bump(res["probes"], "neighbour_item_tried", st.neighbour_tried)
    res["nontrivial"] = shared_ops >= 2 and (spice or k >= 1)
    return res


# ------------------------------------------------------------------ shrinking

def reductions(doc: dict):
    if doc.get("threads"):
        for i, th in enumerate(doc["threads"]):
            for key, mn in (("picks", 0), ("xs", 1)):
                for cand in core.list_deletions(th[key], mn):
                    ths = [dict(t) for t in doc["threads"]]
                    ths[i][key] = cand
                    yield {**doc, "threads": ths}
        return
    if doc.get("twin") is not None:
        yield {k: v for k, v in doc.items() if k != "twin"}
        for cand in reductions(doc["twin"]):
            yield {**doc, "twin": cand}
    ops = doc["ops"]
    for cand in core.list_deletions(ops, 1):
        if any(o["op"] == "decode" for o in cand):
            yield {**doc, "ops": cand}
    if doc["k"] > 0:
        for k in sorted({0, 1, 2, doc["k"] - 1}):
            if 0 <= k < doc["k"]:
                if k == 0:
                    n, mb = _dims(doc["template"])
                    if n == mb:
                        continue    # the vector would be empty
                yield {**doc, "k": k}
    h = doc["hardness"]
    if h["n_runs"] > 1:
        yield {**doc, "hardness": {**h, "n_runs": 1}}
    if h["max_fes"] > 20:
        yield {**doc, "hardness": {**h, "max_fes": 20}}
    for oi, o in enumerate(ops):
        if o["op"] == "decode" and not isinstance(o["x"], str):
            vals = [unhex(v) for v in o["x"]]
            for simple in ([0.0] * len(vals),
                           [round(v, 1) for v in vals],
                           [0.5 if v >= 0 else -0.5 for v in vals]):
                if simple != vals:
                    no = list(ops)
                    no[oi] = {**o, "x": [fhex(v) for v in simple]}
                    yield {**doc, "ops": no}
            if o.get("reuse"):
                no = list(ops)
                no[oi] = {**o, "reuse": False}
                yield {**doc, "ops": no}
