"""C02 - the seven packing objectives under shared-object evaluation histories."""
from __future__ import annotations

import random

from simkit import core
from simkit.engines import c04, packgen
from simkit.oracles import packing as orc

PROPERTY = "C02"
SIM_TIME_UNIT = "objective evaluations (no clock in this property)"
STATE_MEASURE = ("distinct (instance digest, objective, scratch state class before "
                 "the call, packing digest) tuples")
RULE = (
    "Scenario = one instance, ONE object of each of the seven objective classes "
    "and 2-6 feasible packings (reference-model decodings of both encodings, then "
    "legal edits: row shuffles, contiguous bin renumbering, relocation or in-place "
    "rotation of items, i.e. also layouts no decoder produces, sparse last bins, "
    "unsorted rows) held in 1-2 reused Packing buffers; a generated history of "
    "10-60 operations evaluates (objective, packing) pairs in arbitrary order with "
    "repeats, overwrites the packing buffer in place between evaluations and "
    "scribbles the objectives' scratch arrays (fault). Every value is compared "
    "with an independent implementation of the documented definition, with the "
    "declared bounds, with the bin-count conversion, with earlier values of the "
    "same pair, and - across packings - with the dominance clause. Non-trivial = "
    "at least two evaluations on one shared objective object with a different "
    "packing or a scribble in between; distinct = distinct scenario digests."
    ' The caller may re-use the item matrix it handed to the Instance constructor. Violations that need scribbled private arrays count only if the history without those scribbles shows them too.')
COMPONENTS = {
    "real": ["BinCount, BinCountAndLastEmpty, BinCountAndEmpty, "
             "BinCountAndLastSmall, BinCountAndSmall, BinCountAndLastSkyline, "
             "BinCountAndLowestSkyline (evaluate, lower_bound, upper_bound, "
             "to_bin_count; njit kernels)", "binpacking2d Instance, Packing, "
             "PackingSpace.create"],
    "stub": ["caller history", "contents of the objectives' scratch arrays "
             "between calls", "producer of the packings (reference BL model + "
             "legal edits)"],
}
ASSUMPTIONS = [
    "the objective definitions in simkit/oracles/packing.py are the documented "
    "ones (module docstrings); they were cross-checked on the unchanged tree",
    "the universal quantifier over packings is sampled; the simulation adds the "
    "shared-object history, buffer reuse and scratch-state faults",
    "numba, numpy are trusted",
]
FAULT_KINDS = ["caller_reuses_item_matrix", "same_name_other_instance", "scribble_temp:extreme", "scribble_temp:random",
               "buffer_overwritten_in_place", "rows_shuffled"]
PROBES = ["dominance_pair_checked", "sparse_last_bin", "same_pair_again",
          "packing_not_decoder_reachable", "value_equals_lower_bound",
          "dtype:int8", "dtype:int16",
          "dtype:int32", "multi_bin", "single_bin"] + [
    f"objective:{k}" for k in orc.OBJECTIVES]
HARD_CAP_S = 120.0
CHUNK = 16
NAMES = sorted(orc.OBJECTIVES)


def plan(tier: str) -> list:
    if tier == "quick":
        return [{"name": "nofault", "n": 2500, "faults": False, "big": False},
                {"name": "fault", "n": 5500, "faults": True, "big": False}]
    return [{"name": "nofault", "n": 60000, "faults": False, "big": True},
            {"name": "fault", "n": 240000, "faults": True, "big": True}]


def warmup() -> None:
    for doc in directed("quick"):
        execute(doc)


def generate(rng: random.Random, batch: dict, depth: int = 0) -> dict:
    inst = packgen.gen_instance(rng, big=batch.get("big", False),
                                shipped_p=0.08)
    items = packgen.resolve_items(inst)
    packs = []
    if rng.random() < 0.012:
        inst = packgen.gen_huge_bin(rng)
        items = inst["items"]
    elif rng.random() < 0.015:
        # few items nearly as large as a bin with sides around 1e5: item
        # and per-bin areas around and beyond 2**31
        inst = packgen.gen_large_items_bin(rng)
        items = inst["items"]
    if rng.random() < 0.2:
        # bins filled exactly + one tiny item alone in the last bin: the
        # packing whose value sits right at the declared lower bound
        inst, x0 = packgen.gen_exact_fill(rng)
        items = inst["items"]
        packs.append({"x": x0, "encoder": rng.choice([1, 2]), "edits": []})
    for _ in range(rng.choice([2, 2, 3, 4, 6])):
        base = [i + 1 for i, it in enumerate(items) for _ in range(it[2])]
        rng.shuffle(base)
        x = [v if rng.random() < 0.6 else -v for v in base]
        edits = [{"kind": rng.choice(["shuffle_rows", "renumber_bins",
                                      "relocate", "relocate",
                                      "rotate_in_place", "to_new_bin",
                                      "to_new_bin"]),
                  "seed": rng.getrandbits(32)}
                 for _ in range(rng.choice([0, 0, 1, 2, 4, 9]))]
        packs.append({"x": x, "encoder": rng.choice([1, 2]), "edits": edits})
    ops = []
    faults = batch.get("faults", False)
    for _ in range(rng.choice([10, 20, 40, 60])):
        if faults and rng.random() < 0.2:
            ops.append({"op": "scribble_temp",
                        "kind": rng.choice(["extreme", "random"]),
                        "seed": rng.getrandbits(32)})
        else:
            ops.append({"op": "evaluate", "obj": rng.choice(NAMES),
                        "pack": rng.randrange(len(packs))})
    if "resource" not in inst and rng.random() < 0.04:
        inst = {**inst, "caller": {
            "src": rng.choice(["auto", "auto", "int64", "fortran", "instance"]),
            "reuse": rng.choice(["scale", "zero"])}}
    doc = {"inst": inst, "packs": packs, "buffers": rng.choice([1, 1, 2]),
           "ops": ops}
    if depth == 0 and "resource" not in inst and rng.random() < 0.25:
        twin = generate(rng, batch, depth=1)
        if "resource" not in twin["inst"]:
            doc["twin"] = twin
    return doc


def directed(tier: str) -> list:
    inst = {"W": 10, "H": 10, "items": [[7, 7, 3], [3, 3, 4], [2, 5, 1]]}
    packs = [{"x": [1, 1, 1, 2, 2, 2, 2, 3], "encoder": 1, "edits": []},
             {"x": [2, 2, 2, 2, 3, 1, 1, 1], "encoder": 2,
              "edits": [{"kind": "shuffle_rows", "seed": 1},
                        {"kind": "relocate", "seed": 2}]},
             {"x": [1, 2, 1, 2, 1, 2, 2, 3], "encoder": 2,
              "edits": [{"kind": "renumber_bins", "seed": 3}]}]
    ops = []
    for rep in range(2):
        for o in NAMES:
            for p in range(3):
                ops.append({"op": "evaluate", "obj": o, "pack": p})
            ops.append({"op": "scribble_temp", "kind": "extreme",
                        "seed": 5 + rep})
    large = {"inst": {"W": 60000, "H": 60000,
                      "items": [[50000, 50000, 1], [48000, 48000, 2]]},
             "packs": [{"x": [1, 2, 2], "encoder": 1, "edits": []},
                       {"x": [2, -1, 2], "encoder": 2,
                        "edits": [{"kind": "shuffle_rows", "seed": 4}]}],
             "buffers": 1,
             "ops": [{"op": "evaluate", "obj": o, "pack": p}
                     for o in NAMES for p in (0, 1)]}
    return [{"inst": inst, "packs": packs, "buffers": 1, "ops": ops}, large,
            {"inst": {"resource": "a04"},
             "packs": [{"x": [1] * 8 + [2] * 8, "encoder": 1, "edits": []},
                       {"x": [2] * 8 + [-1] * 8, "encoder": 2,
                        "edits": [{"kind": "shuffle_rows", "seed": 9}]}],
             "buffers": 2,
             "ops": [{"op": "evaluate", "obj": o, "pack": p}
                     for o in NAMES for p in (0, 1, 0)]}]


def execute(doc: dict) -> dict:
    return core.confirm_on_legal_history(doc, _execute_full(doc),
                                         _execute_full, ("scribble_temp",))


def _execute_full(doc: dict) -> dict:
    """A scenario may carry a twin: a second, different instance with the SAME
    name whose objectives are created and used after the first ones (state keyed
    by the instance name must not leak between them)."""
    res = _execute_one(doc, packgen.scenario_name(doc))
    twin = doc.get("twin")
    if twin is not None and res["violation"] is None:
        r2 = _execute_one(twin, packgen.scenario_name(doc))
        res["events"].append(["twin"])
        res["events"].extend(r2["events"])
        for key in ("faults", "probes"):
            for k, v in r2[key].items():
                res[key][k] = res[key].get(k, 0) + v
        res["states"].extend(r2["states"])
        res["ops"] += r2["ops"]
        res["sim_time"] += r2["sim_time"]
        core.bump(res["faults"], "same_name_other_instance")
        if r2["violation"] is not None:
            res["violation"] = r2["violation"]
            res["violation"]["in_twin"] = True
    return res


def _execute_one(doc: dict, name: str) -> dict:
    import importlib

    import numpy as np
    from moptipyapps.binpacking2d.packing_space import PackingSpace
    from simkit.engines.c12_jobs import BP_OBJECTIVES

    res = core.new_result()
    inst = packgen.build_instance(doc["inst"], name)
    W, H = int(inst.bin_width), int(inst.bin_height)
    items = [[int(v) for v in row] for row in inst]
    if doc["inst"].get("caller"):
        # judged against what was handed to the constructor, not against an
        # instance that may share the caller's (re-used) buffer
        core.bump(res["faults"], "caller_reuses_item_matrix")
        items = [[int(v) for v in row] for row in doc["inst"]["items"]]
    n_items = int(inst.n_items)
    core.bump(res["probes"], f"dtype:{inst.dtype}")
    inst_digest = core.digest([W, H, items])[:16]
    space = PackingSpace(inst)
    objs = {}
    for name, (mod, cls) in BP_OBJECTIVES.items():
        objs[name] = getattr(importlib.import_module(
            f"moptipyapps.binpacking2d.objectives.{mod}"), cls)(inst)
        if str(objs[name]) != name:
            core.violation(res, "objective-name",
                           f"{cls} calls itself {objs[name]}")
            return res
    # the feasible packings of this scenario
    packs = []
    for pd in doc["packs"]:
        rows, nb = orc.bl_decode(W, H, items, pd["x"], int(pd["encoder"]))
        reach = True
        for e in pd["edits"]:
            rows2, nb = c04.apply_legal(rows, nb, W, H, e)
            if rows2 != rows and e["kind"] in ("relocate", "to_new_bin",
                                               "rotate_in_place"):
                reach = False
            if e["kind"] == "shuffle_rows":
                core.bump(res["faults"], "rows_shuffled")
            rows = rows2
        if orc.infeasibility(W, H, items, rows, nb):
            raise AssertionError("generated packing infeasible: harness bug")
        packs.append((rows, nb, core.digest(rows)[:12]))
        if not reach:
            core.bump(res["probes"], "packing_not_decoder_reachable")
        last = [r for r in rows if r[1] == nb]
        if nb > 1 and len(last) == 1:
            core.bump(res["probes"], "sparse_last_bin")
        core.bump(res["probes"], "multi_bin" if nb > 1 else "single_bin")
    bufs = [space.create() for _ in range(int(doc["buffers"]))]
    held = [None] * len(bufs)       # which packing a buffer currently holds
    values: dict = {}               # (objective, packing index) -> value
    last_pack: dict = {}            # objective -> last packing evaluated
    temp_state: dict = {}
    interesting = 0

    def scratch_arrays():
        out = []
        for name, o in objs.items():
            for a in packgen.scratch_arrays(o):
                out.append((name, a))
        return out

    for idx, op in enumerate(doc["ops"]):
        if op["op"] == "scribble_temp":
            rnd = random.Random(op["seed"])
            for name, a in scratch_arrays():
                info = np.iinfo(a.dtype) if np.issubdtype(
                    a.dtype, np.integer) else None
                if op["kind"] == "extreme" and info is not None:
                    vals = [rnd.choice([int(info.min), int(info.max), -1, 0,
                                        1]) for _ in range(a.size)]
                else:
                    vals = [rnd.randrange(-3 * n_items - 3,
                                          W * H * 2 + 3)
                            for _ in range(a.size)]
                try:
                    a[...] = np.array(vals, dtype=np.int64).astype(
                        a.dtype).reshape(a.shape)
                except (TypeError, ValueError):
                    continue    # not an array of the kind known here
                temp_state[name] = op["kind"]
            core.bump(res["faults"], f"scribble_temp:{op['kind']}")
            res["events"].append(["scribble_temp", op["kind"]])
            continue
        name = op["obj"]
        pi = int(op["pack"]) % len(packs)
        rows, nb, pdig = packs[pi]
        bi = pi % len(bufs)
        y = bufs[bi]
        if held[bi] != pi:
            if held[bi] is not None:
                core.bump(res["faults"], "buffer_overwritten_in_place")
            y[:, :] = np.array(rows, dtype=np.int64).astype(inst.dtype)
            y.n_bins = nb
            held[bi] = pi
        o = objs[name]
        v = o.evaluate(y)
        res["ops"] += 1
        core.bump(res["probes"], f"objective:{name}")
        res["events"].append(["evaluate", name, pdig, repr(v)])
        res["states"].append(f"{inst_digest}|{name}|"
                             f"{temp_state.get(name, 'used')}|{pdig}")
        temp_state[name] = "used"
        where = (f"op {idx}: {name} on packing {pi} (W={W}, H={H}, "
                 f"items={items}, rows={rows})")
        want = orc.OBJECTIVES[name](W, H, items, rows)
        if isinstance(v, bool) or not isinstance(v, (int, np.integer)) \
                or int(v) != want:
            core.violation(res, "value-differs-from-definition",
                           f"{where}: evaluate returned {v!r}, the documented "
                           f"definition gives {want}", objective=name)
            break
        lb, ub = o.lower_bound(), o.upper_bound()
        if want == lb:
            core.bump(res["probes"], "value_equals_lower_bound")
        if not lb <= want <= ub:
            core.violation(res, "value-outside-declared-bounds",
                           f"{where}: value {want} not in [{lb}, {ub}]",
                           objective=name)
            break
        if o.to_bin_count(int(v)) != nb:
            core.violation(res, "bin-count-conversion",
                           f"{where}: to_bin_count({v}) = "
                           f"{o.to_bin_count(int(v))}, packing uses {nb} bins",
                           objective=name)
            break
        if (name, pi) in values:
            core.bump(res["probes"], "same_pair_again")
        if name in last_pack and last_pack[name] != pi:
            interesting += 1
        values[(name, pi)] = want
        last_pack[name] = pi
        # dominance across the packings evaluated so far
        for (n2, p2), v2 in values.items():
            if n2 != name or p2 == pi:
                continue
            nb2 = packs[p2][1]
            if nb2 != nb:
                core.bump(res["probes"], "dominance_pair_checked")
                if (nb < nb2) != (want < v2):
                    core.violation(
                        res, "fewer-bins-not-strictly-better",
                        f"{where}: {nb} bins -> {want}, but packing {p2} "
                        f"with {nb2} bins -> {v2} under {name}",
                        objective=name)
                    break
        if res["violation"] is not None:
            break
    res["sim_time"] = float(res["ops"])
    res["nontrivial"] = interesting >= 1 or bool(res["faults"])
    return res


def reductions(doc: dict):
    if doc.get("twin") is not None:
        yield {k: v for k, v in doc.items() if k != "twin"}
        for cand in reductions(doc["twin"]):
            yield {**doc, "twin": cand}
    for cand in core.list_deletions(doc["ops"], 1):
        if any(o["op"] == "evaluate" for o in cand):
            yield {**doc, "ops": cand}
    if doc["buffers"] > 1:
        yield {**doc, "buffers": 1}
    if len(doc["packs"]) > 1:
        for k in range(len(doc["packs"]) - 1, -1, -1):
            packs = doc["packs"][:k] + doc["packs"][k + 1:]
            ops = []
            for o in doc["ops"]:
                if o["op"] != "evaluate":
                    ops.append(o)
                elif o["pack"] % len(doc["packs"]) != k:
                    p = o["pack"] % len(doc["packs"])
                    ops.append({**o, "pack": p - 1 if p > k else p})
            if any(o["op"] == "evaluate" for o in ops):
                yield {**doc, "packs": packs, "ops": ops}
    for k, pd in enumerate(doc["packs"]):
        if pd["edits"]:
            for cand in core.list_deletions(pd["edits"], 0):
                packs = list(doc["packs"])
                packs[k] = {**pd, "edits": cand}
                yield {**doc, "packs": packs}
    inst = doc["inst"]
    if "resource" in inst:
        return
    items = inst["items"]
    if len(items) > 1:
        for t in range(len(items)):
            new_items = items[:t] + items[t + 1:]
            packs = []
            for pd in doc["packs"]:
                nx = []
                for v in pd["x"]:
                    a = abs(v)
                    if a == t + 1:
                        continue
                    a2 = a - 1 if a > t + 1 else a
                    nx.append(a2 if v > 0 else -a2)
                packs.append({**pd, "x": nx})
            yield {**doc, "inst": {**inst, "items": new_items},
                   "packs": packs}
    for t, it in enumerate(items):
        if it[2] > 1:
            new_items = [list(r) for r in items]
            new_items[t][2] -= 1
            packs = []
            for pd in doc["packs"]:
                nx = list(pd["x"])
                for i in range(len(nx) - 1, -1, -1):
                    if abs(nx[i]) == t + 1:
                        del nx[i]
                        break
                packs.append({**pd, "x": nx})
            yield {**doc, "inst": {**inst, "items": new_items},
                   "packs": packs}
    for key in ("W", "H"):
        for v in core.int_shrinks(inst[key], 1):
            if v >= 1:
                ni = {**inst, key: v}
                if packgen.valid_inst(ni):
                    yield {**doc, "inst": ni}
