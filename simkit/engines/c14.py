"""C14 - shared-encoder history simulation against the bottom-left reference model."""
from __future__ import annotations

import random

from simkit import core
from simkit.engines import packgen
from simkit.oracles import packing as orc

PROPERTY = "C14"
SIM_TIME_UNIT = "decodings (no clock in this property)"
STATE_MEASURE = ("distinct (instance digest, encoder, dirty-state class before "
                 "the decode, permutation digest) tuples")
RULE = (
    "Scenario = one Instance, one ImprovedBottomLeftEncoding1/2 object and 1-2 "
    "destination Packings shared by a generated list of 1-40 operations "
    "(decode(x) with x fresh / one swap or sign flip away from the previous / "
    "equal to an earlier x / adversarial; faults scribble_dest, scribble_scratch, "
    "swap_dest). After every decode the destination is compared with the "
    "reference model. A scenario is non-trivial if at least two decodings hit "
    "the same shared encoder/destination and either a fault fired before one of "
    "them or two different permutations were decoded; distinct = distinct "
    "scenario-document digests."
    ' Further dimensions: calls that end with an exception between valid ones, the caller re-using the item matrix it handed over (also column-major or as another Instance), and two caller threads decoding at the same time (one shared encoder of encoding 1 or an encoder each, created inside the thread) under the line-event scheduler. Violations that need scribbled private arrays count only if the history without those scribbles shows them too.')
COMPONENTS = {
    "real": ["moptipyapps.binpacking2d.instance.Instance",
             "moptipyapps.binpacking2d.packing_space.PackingSpace.create",
             "ImprovedBottomLeftEncoding1.decode + njit kernels",
             "ImprovedBottomLeftEncoding2.decode + njit kernels",
             "moptipy SignedPermutations (dtype of x)"],
    "stub": ["caller history (operation list)",
             "contents of destination packing and encoder scratch arrays "
             "between calls (scribbled by the simulator)"],
}
ASSUMPTIONS = [
    "the reference model in simkit/oracles/packing.py is a faithful reading of "
    "the documented rule (module docstrings of ibl_encoding_1/2)",
    "numba, numpy, moptipy are trusted",
    "seeded search: a clean batch is evidence, not proof",
]
FAULT_KINDS = ["caller_threads_interleaved", "caller_reuses_item_matrix", "same_name_other_instance", "decode_wrong_multiset", "decode_call_fails", "scribble_dest:extreme", "scribble_dest:other_packing",
               "scribble_dest:blocking", "scribble_dest:random",
               "scribble_scratch:extreme", "scribble_scratch:inverted",
               "scribble_scratch:wide", "scribble_scratch:random",
               "swap_dest"]
PROBES = ["forced_rotation", "first_fit_earlier_bin", "new_bin_after_trying_many",
          "left_stop_support", "left_stop_blocker", "alternations_ge3",
          "dtype:int8", "dtype:int16", "dtype:int32",
          "scribble_immediately_before_decode", "same_x_again",
          "encoder1", "encoder2", "multi_bin", "shipped_instance"]
HARD_CAP_S = 120.0
CHUNK = 16


def base_plan(tier: str) -> list:
    if tier == "quick":
        return [{"name": "nofault", "n": 4000, "faults": False, "big": False},
                {"name": "fault", "n": 10000, "faults": True, "big": False}]
    return [{"name": "nofault", "n": 300000, "faults": False, "big": True},
            {"name": "fault", "n": 900000, "faults": True, "big": True}]


def plan(tier: str) -> list:
    return base_plan(tier) + [{"name": "threads", "threads": True,
                               "n": 600 if tier == "quick" else 40000,
                               "faults": False, "big": False}]


def warmup() -> None:
    # compile the kernels for the common dtypes once in the parent
    for doc in directed("quick")[:6]:
        execute(doc)


# ------------------------------------------------------------------ generation

def _gen_x(rng: random.Random, items: list, prev: list | None,
           history: list) -> tuple[list, str]:
    base = [i + 1 for i, it in enumerate(items) for _ in range(it[2])]
    r = rng.random()
    if prev is not None and r < 0.25:
        x = list(prev)
        if len(x) >= 2:
            a, b = rng.randrange(len(x)), rng.randrange(len(x))
            x[a], x[b] = x[b], x[a]
        return x, "swap"
    if prev is not None and r < 0.45:
        x = list(prev)
        a = rng.randrange(len(x))
        x[a] = -x[a]
        return x, "flip"
    if history and r < 0.60:
        return list(rng.choice(history)), "again"
    if r < 0.66:
        rng.shuffle(base)
        return [-v for v in base], "all_rotated"
    if r < 0.72:
        base.sort(key=lambda i: -(items[i - 1][0] * items[i - 1][1]))
        if rng.random() < 0.5:
            base.reverse()
        return [v if rng.random() < 0.7 else -v for v in base], "sorted_area"
    rng.shuffle(base)
    return [v if rng.random() < 0.5 else -v for v in base], "fresh"


def _generate_threads(rng: random.Random, batch: dict) -> dict:
    """Two caller threads decoding at the same time: either with one shared
    encoder object of encoding 1 (which keeps no state between calls) or
    each with an encoder object of its own; destinations are never shared."""
    while True:
        inst = packgen.gen_instance(rng, big=False, shipped_p=0.0)
        items = packgen.resolve_items(inst)
        if sum(it[2] for it in items) <= 30:
            break
    encoders = rng.choice([[1, 1], [1, 1], [2, 2], [1, 2]])
    share = encoders == [1, 1] and rng.random() < 0.6
    threads = []
    for e in encoders:
        xs, prev = [], None
        for _ in range(rng.choice([1, 2, 3])):
            x, _how = _gen_x(rng, items, prev, xs)
            xs.append(x)
            prev = x
        threads.append({"encoder": e, "xs": xs, "picks": [
            [rng.random(), rng.random(), rng.random()]
            for _ in range(rng.choice([1, 2, 4]))]})
    return {"inst": inst, "encoder": encoders[0], "pool": 1, "ops": [],
            "threads": threads, "share_encoder": share}


def generate(rng: random.Random, batch: dict, depth: int = 0) -> dict:
    if batch.get("threads"):
        return _generate_threads(rng, batch)
    doc = _generate(rng, batch)
    if depth == 0 and "resource" not in doc["inst"] and rng.random() < 0.12:
        twin = _generate(rng, batch)
        if "resource" not in twin["inst"]:
            doc["twin"] = twin
    return doc


def _generate(rng: random.Random, batch: dict) -> dict:
    inst = packgen.gen_instance(rng, big=batch.get("big", False))
    if "resource" not in inst and rng.random() < 0.04:
        inst["caller"] = {"src": rng.choice(["auto", "auto", "int64", "fortran", "instance"]),
                          "reuse": rng.choice(["scale", "zero"])}
    items = packgen.resolve_items(inst)
    encoder = 1 if rng.random() < 0.4 else 2
    pool = 1 if rng.random() < 0.7 else 2
    n_ops = rng.choice([1, 2, 3, 4, 6, 8, 12, 20, 40])
    n_items = sum(it[2] for it in items)
    if n_items > 40:
        n_ops = min(n_ops, 6)
    ops: list = []
    prev = None
    history: list = []
    faults = batch.get("faults", False)
    p_fault = rng.choice([0.15, 0.3, 0.5]) if faults else 0.0
    enabled = [k for k in FAULT_KINDS if k not in (
        "same_name_other_instance", "caller_reuses_item_matrix",
        "caller_threads_interleaved")
               and rng.random() < 0.7] if faults else []
    while len([o for o in ops if o["op"] == "decode"]) < n_ops:
        if enabled and rng.random() < p_fault:
            kind = rng.choice(enabled)
            if kind == "swap_dest":
                if pool > 1:
                    ops.append({"op": "swap_dest"})
                continue
            if kind == "decode_wrong_multiset":
                # a caller hands over ids with wrong multiplicities (same
                # length, valid ids): whatever that call does, later
                # decodings of valid permutations must be unaffected
                nt = len(items)
                tot = sum(it[2] for it in items)
                bad = [rng.randint(1, nt) * rng.choice([1, -1])
                       for _ in range(tot)]
                ops.append({"op": "decode_bad", "x": bad})
                continue
            if kind == "decode_call_fails":
                # a call that ends with an exception (the caller passes a
                # plain array as destination, which cannot take the bin
                # count); the encoder object goes on being used
                x, _ = _gen_x(rng, items, prev, history)
                ops.append({"op": "decode_fails", "x": x})
                continue
            what, _, sub = kind.partition(":")
            if what == "scribble_scratch" and encoder == 1:
                continue
            ops.append({"op": what, "kind": sub,
                        "vals_seed": rng.getrandbits(32)})
            continue
        x, how = _gen_x(rng, items, prev, history)
        ops.append({"op": "decode", "x": x, "how": how})
        prev = x
        history.append(x)
    return {"inst": inst, "encoder": encoder, "pool": pool, "ops": ops}


def directed(tier: str) -> list:
    docs = []
    # forced rotation, support-stop, blocker-stop, multi-bin first fit, both encoders
    base_items = [[10, 20, 5], [5, 5, 5]]
    xx = [1, -1, 2, -2, 1, -2, -2, -1, -1, 2]
    for enc in (1, 2):
        docs.append({"inst": {"W": 30, "H": 30, "items": base_items},
                     "encoder": enc, "pool": 1, "ops": [
            {"op": "decode", "x": xx, "how": "fresh"},
            {"op": "scribble_dest", "kind": "blocking", "vals_seed": 1},
            {"op": "scribble_scratch", "kind": "wide", "vals_seed": 2},
            {"op": "decode", "x": xx[::-1], "how": "fresh"},
            {"op": "scribble_dest", "kind": "other_packing", "vals_seed": 3},
            {"op": "scribble_scratch", "kind": "inverted", "vals_seed": 4},
            {"op": "decode", "x": xx, "how": "again"},
            {"op": "decode_bad", "x": [1, 1, 1, 1, 1, 1, 1, -1, 2, 2]},
            {"op": "decode", "x": xx[::-1], "how": "again"}]})
    # item fits only rotated
    docs.append({"inst": {"W": 8, "H": 3, "items": [[3, 8, 2], [1, 1, 3]]},
                 "encoder": 2, "pool": 2, "ops": [
        {"op": "decode", "x": [1, 2, -1, 2, 2], "how": "fresh"},
        {"op": "swap_dest"},
        {"op": "scribble_dest", "kind": "extreme", "vals_seed": 5},
        {"op": "scribble_scratch", "kind": "extreme", "vals_seed": 6},
        {"op": "decode", "x": [-2, 1, 2, 1, -2], "how": "fresh"}]})
    # first fit into an earlier bin: big items fill bins, small ones go back
    docs.append({"inst": {"W": 10, "H": 10, "items": [[7, 7, 3], [3, 3, 4]]},
                 "encoder": 2, "pool": 1, "ops": [
        {"op": "decode", "x": [1, 1, 1, 2, 2, 2, 2], "how": "fresh"},
        {"op": "scribble_scratch", "kind": "random", "vals_seed": 7},
        {"op": "scribble_dest", "kind": "random", "vals_seed": 8},
        {"op": "decode", "x": [1, 2, 1, 2, 1, 2, 2], "how": "fresh"}]})
    # dtype boundaries: int8/int16 and int16/int32 and int32/int64
    for (W, H, w, h) in ((63, 60, 63, 60), (64, 60, 63, 60),
                         (16383, 6, 16383, 5), (16384, 6, 16383, 5),
                         (5, 16384, 5, 16383)):
        docs.append({"inst": {"W": W, "H": H, "items": [[w, h, 2], [1, 2, 3]]},
                     "encoder": 2, "pool": 1, "ops": [
            {"op": "decode", "x": [1, 2, -2, 1, 2], "how": "fresh"},
            {"op": "scribble_dest", "kind": "extreme", "vals_seed": 9},
            {"op": "decode", "x": [2, -1, 2, -2, 1], "how": "fresh"}]})
    docs.append({"inst": {"resource": "beng01"}, "encoder": 2, "pool": 1,
                 "ops": [{"op": "decode", "x": list(range(1, 21)),
                          "how": "fresh"},
                         {"op": "scribble_scratch", "kind": "wide",
                          "vals_seed": 11},
                         {"op": "decode", "x": [-v for v in range(20, 0, -1)],
                          "how": "fresh"}]})
    docs.append({"inst": {"resource": "a04"}, "encoder": 1, "pool": 1,
                 "ops": [{"op": "decode",
                          "x": [1] * 5 + [-2] * 5 + [2] * 3 + [-1] * 3,
                          "how": "fresh"},
                         {"op": "scribble_dest", "kind": "blocking",
                          "vals_seed": 12},
                         {"op": "decode",
                          "x": [2] * 8 + [1] * 8,
                          "how": "fresh"}]})
    return docs


# ------------------------------------------------------------------ execution

def _scribble_values(rnd: random.Random, kind: str, n: int, lo: int, hi: int,
                     W: int, H: int, n_items: int) -> list:
    if kind == "extreme":
        return [rnd.choice([lo, hi, -1, 0, hi - 1, lo + 1]) for _ in range(n)]
    small = max(2, min(hi, 2 * n_items + 2))
    return [rnd.randrange(-small, small + 1) for _ in range(n)]


def execute(doc: dict) -> dict:
    return core.confirm_on_legal_history(doc, _execute_full(doc),
                                         _execute_full, ("scribble_scratch",))


def _execute_threads(doc: dict) -> dict:
    import os

    import numpy as np
    from moptipyapps.binpacking2d.encodings.ibl_encoding_1 import (
        ImprovedBottomLeftEncoding1)
    from moptipyapps.binpacking2d.encodings.ibl_encoding_2 import (
        ImprovedBottomLeftEncoding2)
    from moptipyapps.binpacking2d.packing_space import PackingSpace
    res = core.new_result()
    inst = packgen.build_instance(doc["inst"], packgen.scenario_name(doc))
    W, H = int(inst.bin_width), int(inst.bin_height)
    items = [[int(v) for v in row] for row in doc["inst"]["items"]]
    space = PackingSpace(inst)
    xdtype = packgen.x_dtype(inst)
    cls = {1: ImprovedBottomLeftEncoding1, 2: ImprovedBottomLeftEncoding2}
    pre = core.Preempt((os.sep + "moptipyapps" + os.sep, ))

    def bodies():
        # a fresh instance object per phase (whatever is built lazily on
        # first use is built again), shared by the threads of that phase;
        # encoders of their own are created inside the thread
        inst2 = packgen.build_instance(doc["inst"],
                                       packgen.scenario_name(doc))
        space2 = PackingSpace(inst2)
        shared = cls[1](inst2) if doc.get("share_encoder") else None
        out = []
        for th in doc["threads"]:
            xs = [np.array(x, dtype=xdtype) for x in th["xs"]]

            def body(th=th, xs=xs):
                enc = shared if shared is not None else cls[
                    int(th["encoder"])](inst2)
                got = []
                for x in xs:
                    y = space2.create()
                    enc.decode(x, y)
                    got.append(([[int(v) for v in row] for row in y],
                                int(y.n_bins)))
                return got
            out.append(body)
        return out
    points = []
    for ti, th in enumerate(doc["threads"]):
        _, table = pre.profile(bodies()[ti])
        points.append(core.Preempt.pick_points(table, th["picks"]))
    got, switches = pre.run(bodies(), points)
    core.bump(res["faults"], "caller_threads_interleaved")
    if doc.get("share_encoder"):
        core.bump(res["probes"], "threads_share_encoder_1")
    if switches >= 2:
        core.bump(res["probes"], "thread_switches>=2")
    res["events"].append(["threads", switches])
    for i, (th, g) in enumerate(zip(doc["threads"], got)):
        if isinstance(g, BaseException):
            core.violation(res, "decode-raised",
                           f"thread {i}: {type(g).__name__}: {g}")
            break
        for x, (rows, nb) in zip(th["xs"], g):
            res["ops"] += 1
            exp, exp_n = orc.bl_decode(W, H, items, list(x),
                                       int(th["encoder"]))
            res["states"].append(core.digest([rows, nb])[:16])
            if rows != exp or nb != exp_n:
                core.violation(
                    res, "differs-from-documented-rule",
                    f"encoder {th['encoder']}, W={W}, H={H}, items={items}, "
                    f"x={list(x)}: thread {i} (while another thread decodes, "
                    f"{switches} switches, shared encoder object: "
                    f"{bool(doc.get('share_encoder'))}) got {rows} n_bins="
                    f"{nb}, the documented procedure gives {exp} n_bins="
                    f"{exp_n}")
                break
        if res["violation"] is not None:
            break
    res["sim_time"] = float(res["ops"])
    res["nontrivial"] = switches >= 1
    return res


def _execute_full(doc: dict) -> dict:
    if doc.get("threads"):
        return _execute_threads(doc)
    """Optionally followed by a twin: another instance with the SAME name,
    its own encoder and destinations (nothing keyed by the name may leak)."""
    name = packgen.scenario_name(doc)
    res = _execute_one(doc, name)
    twin = doc.get("twin")
    if twin is not None and res["violation"] is None:
        r2 = _execute_one(twin, name)
        res["events"].append(["twin"])
        res["events"].extend(r2["events"])
        for key in ("faults", "probes"):
            for k, v in r2[key].items():
                res[key][k] = res[key].get(k, 0) + v
        res["states"].extend(r2["states"])
        res["ops"] += r2["ops"]
        res["sim_time"] += r2["sim_time"]
        res["nontrivial"] = res["nontrivial"] or r2["nontrivial"]
        core.bump(res["faults"], "same_name_other_instance")
        if r2["violation"] is not None:
            res["violation"] = r2["violation"]
            res["violation"]["in_twin"] = True
    return res


def _execute_one(doc: dict, name: str) -> dict:
    import numpy as np
    from moptipyapps.binpacking2d.encodings.ibl_encoding_1 import (
        ImprovedBottomLeftEncoding1)
    from moptipyapps.binpacking2d.encodings.ibl_encoding_2 import (
        ImprovedBottomLeftEncoding2)
    from moptipyapps.binpacking2d.packing_space import PackingSpace

    res = core.new_result()
    inst = packgen.build_instance(doc["inst"], name)
    W, H = int(inst.bin_width), int(inst.bin_height)
    items = [[int(v) for v in row] for row in inst]
    if doc["inst"].get("caller"):
        # judged against what was handed to the constructor, not against an
        # instance that may share the caller's (re-used) buffer
        core.bump(res["faults"], "caller_reuses_item_matrix")
        items = [[int(v) for v in row] for row in doc["inst"]["items"]]
    n_items = int(inst.n_items)
    inst_digest = core.digest([W, H, items])[:16]
    space = PackingSpace(inst)
    xdtype = packgen.x_dtype(inst)
    encoder_id = int(doc["encoder"])
    enc = (ImprovedBottomLeftEncoding1 if encoder_id == 1
           else ImprovedBottomLeftEncoding2)(inst)
    dests = [space.create() for _ in range(int(doc["pool"]))]
    info = np.iinfo(inst.dtype)
    lo, hi = int(info.min), int(info.max)
    core.bump(res["probes"], f"dtype:{inst.dtype}")
    core.bump(res["probes"], f"encoder{encoder_id}")
    if "resource" in doc["inst"]:
        core.bump(res["probes"], "shipped_instance")
    # a fresh destination holds garbage already; make it deterministic garbage
    for d in dests:
        d.fill(0)
        d.n_bins = -1
    cur = 0
    dirty = "clean"
    just_scribbled = False
    decodes_on_shared = 0
    fault_before_decode = False
    seen_x: dict = {}
    st = orc.BLStats()
    for op in doc["ops"]:
        kind = op["op"]
        if kind == "swap_dest":
            if len(dests) > 1:
                cur = (cur + 1) % len(dests)
                core.bump(res["faults"], "swap_dest")
                dirty = "swapped"
            res["events"].append(["swap_dest", cur])
            continue
        if kind == "scribble_dest":
            rnd = random.Random(op["vals_seed"])
            y = dests[cur]
            sub = op["kind"]
            if sub == "other_packing":
                xs = [i + 1 for i, it in enumerate(items)
                      for _ in range(it[2])]
                rnd.shuffle(xs)
                rows, nb = orc.bl_decode(W, H, items, xs, encoder_id)
                y[:, :] = np.array(rows, dtype=np.int64).astype(inst.dtype)
                y.n_bins = nb
            elif sub == "blocking":
                # every row claims to be a full-bin rectangle in one of the
                # first bins: fatal if a decoder ever read a stale row
                for i in range(n_items):
                    y[i, :] = [1 + i % max(1, len(items)),
                               1 + rnd.randrange(0, 3), 0, 0, W, H]
                y.n_bins = rnd.choice([1, 2, 3, n_items])
            else:
                vals = _scribble_values(rnd, sub, n_items * 6, lo, hi, W, H,
                                        n_items)
                y[:, :] = np.array(vals, dtype=np.int64).reshape(
                    n_items, 6).astype(inst.dtype)
                y.n_bins = rnd.choice([-1, 0, 1, n_items, hi])
            core.bump(res["faults"], f"scribble_dest:{sub}")
            res["events"].append(["scribble_dest", sub, cur])
            dirty = f"dest:{sub}"
            just_scribbled = True
            continue
        if kind == "scribble_scratch":
            if encoder_id != 2:
                continue
            rnd = random.Random(op["vals_seed"])
            # whatever arrays the encoder object keeps between calls
            # (found generically, so that renaming them changes nothing)
            # (only index arrays of the shape the unchanged tree keeps: one
            # entry per item; anything else an implementation may keep is
            # left alone)
            scratch = [a for a in packgen.scratch_arrays(enc)
                       if a.ndim == 1 and len(a) == n_items
                       and np.issubdtype(a.dtype, np.integer)]
            if len(scratch) < 2:
                continue
            starts = scratch[0]
            ends = scratch[-1]
            sub = op["kind"]
            n = len(starts)
            if sub == "inverted":
                sv = [rnd.randrange(0, n + 1) for _ in range(n)]
                ev = [max(0, s - rnd.randrange(0, 3)) for s in sv]
            elif sub == "wide":
                sv = [0] * n
                ev = [n] * n
            elif sub == "extreme":
                # kept inside the array on purpose where an unchanged decoder
                # never reads them; extremes are bounded by the dtype
                sv = [rnd.choice([0, n, n - 1, -1, 1]) for _ in range(n)]
                ev = [rnd.choice([0, n, n - 1, -1, 1]) for _ in range(n)]
            else:
                sv = [rnd.randrange(0, n + 1) for _ in range(n)]
                ev = [rnd.randrange(0, n + 1) for _ in range(n)]
            starts[:] = np.array(sv, dtype=np.int64).astype(starts.dtype)
            ends[:] = np.array(ev, dtype=np.int64).astype(ends.dtype)
            core.bump(res["faults"], f"scribble_scratch:{sub}")
            res["events"].append(["scribble_scratch", sub])
            dirty = f"scratch:{sub}"
            just_scribbled = True
            continue
        if kind == "decode_fails":
            xf = np.array([int(v) for v in op["x"]], dtype=xdtype)
            try:
                enc.decode(xf, np.zeros((n_items, 6), dtype=inst.dtype))
                outcome = "returned"
            except Exception as exc:  # noqa: BLE001
                outcome = type(exc).__name__
            core.bump(res["faults"], "decode_call_fails")
            res["events"].append(["decode_fails", outcome])
            continue
        if kind == "decode_bad":
            # always exactly n_items valid ids (shrunk documents included):
            # the kernels are compiled without bounds checks
            raw = [int(v) for v in op["x"]][:n_items]
            raw += [1] * (n_items - len(raw))
            raw = [(1 + (abs(v) - 1) % len(items)) * (1 if v >= 0 else -1)
                   if v != 0 else 1 for v in raw]
            xb = np.array(raw, dtype=xdtype)
            try:
                enc.decode(xb, dests[cur])
                outcome = "returned"
            except Exception as exc:  # noqa: BLE001
                outcome = type(exc).__name__
            core.bump(res["faults"], "decode_wrong_multiset")
            res["events"].append(["decode_bad", cur, outcome])
            dirty = "after_bad_call"
            just_scribbled = True
            continue
        # ---- decode
        xl = [int(v) for v in op["x"]]
        x = np.array(xl, dtype=xdtype)
        y = dests[cur]
        try:
            enc.decode(x, y)
        except Exception as exc:  # noqa: BLE001
            core.violation(
                res, "decode-raised",
                f"encoder {encoder_id}, W={W}, H={H}, items={items}: decode "
                f"of the valid permutation {xl} raised "
                f"{type(exc).__name__}: {exc}; dirty={dirty}",
                encoder=encoder_id, dirty=dirty)
            break
        res["ops"] += 1
        got = [[int(v) for v in row] for row in y]
        got_n = y.n_bins
        exp, exp_n = orc.bl_decode(W, H, items, xl, encoder_id, st)
        xd = core.digest(xl)[:12]
        res["events"].append(["decode", cur, xd, core.digest(got)[:16],
                              int(got_n) if isinstance(got_n, int)
                              else repr(got_n)])
        res["states"].append(f"{inst_digest}|{encoder_id}|{dirty}|{xd}")
        if just_scribbled:
            core.bump(res["probes"], "scribble_immediately_before_decode")
            fault_before_decode = True
        if xd in seen_x:
            core.bump(res["probes"], "same_x_again")
        decodes_on_shared += 1
        bad_model = orc.infeasibility(W, H, items, exp, exp_n)
        if bad_model:
            raise AssertionError(
                f"reference model produced an infeasible packing {bad_model}"
                f" for W={W} H={H} items={items} x={xl}")
        if type(got_n) is not int or got_n != exp_n or got != exp:  # noqa
            diff = next((i for i in range(min(len(got), len(exp)))
                         if got[i] != exp[i]), None)
            clause = "differs-from-documented-rule"
            if xd in seen_x and seen_x[xd] != (got, got_n):
                clause = "history-dependent-result"
            core.violation(
                res, clause,
                f"encoder {encoder_id}, W={W}, H={H}, items={items}, x={xl}: "
                f"row {diff}: got {got[diff] if diff is not None else None} "
                f"expected {exp[diff] if diff is not None else None}; "
                f"n_bins got {got_n!r} expected {exp_n}; dirty={dirty}",
                encoder=encoder_id, dirty=dirty)
            break
        seen_x[xd] = (got, got_n)
        if exp_n > 1:
            core.bump(res["probes"], "multi_bin")
        just_scribbled = False
        dirty = "used"
    for name, cnt in (("forced_rotation", st.forced_rotation),
                      ("first_fit_earlier_bin", st.first_fit_earlier),
                      ("new_bin_after_trying_many", st.new_bin_after_many),
                      ("left_stop_support", st.left_stop_support),
                      ("left_stop_blocker", st.left_stop_blocker),
                      ("alternations_ge3", st.alternations3)):
        if cnt:
            core.bump(res["probes"], name, cnt)
    res["sim_time"] = float(res["ops"])
    res["nontrivial"] = decodes_on_shared >= 2 and (
        fault_before_decode or len(seen_x) >= 2)
    return res


# ------------------------------------------------------------------ shrinking

def reductions(doc: dict):
    if doc.get("threads"):
        for i, th in enumerate(doc["threads"]):
            for key, mn in (("picks", 0), ("xs", 1)):
                for cand in core.list_deletions(th[key], mn):
                    ths = [dict(t) for t in doc["threads"]]
                    ths[i][key] = cand
                    yield {**doc, "threads": ths}
        return
    if doc.get("twin") is not None:
        yield {k: v for k, v in doc.items() if k != "twin"}
        for cand in reductions(doc["twin"]):
            yield {**doc, "twin": cand}
    ops = doc["ops"]
    # 1. drop operations
    for cand in core.list_deletions(ops, 1):
        if any(o["op"] == "decode" for o in cand):
            yield {**doc, "ops": cand}
    # 2. one destination instead of two
    if doc["pool"] > 1:
        yield {**doc, "pool": 1,
               "ops": [o for o in ops if o["op"] != "swap_dest"]}
    inst = doc["inst"]
    if "resource" in inst:
        items = packgen.resolve_items(inst)
        W, H = packgen.resolve_bin(inst)
        yield {**doc, "inst": {"W": W, "H": H, "items": items}}
        return
    items = inst["items"]
    # 3. drop an item type (renumber ids in every x)
    if len(items) > 1:
        for t in range(len(items)):
            new_items = items[:t] + items[t + 1:]
            new_ops = []
            for o in ops:
                if o["op"] not in ("decode", "decode_bad"):
                    new_ops.append(o)
                    continue
                nx = []
                for v in o["x"]:
                    a = abs(v)
                    if a == t + 1:
                        continue
                    a2 = a - 1 if a > t + 1 else a
                    nx.append(a2 if v > 0 else -a2)
                new_ops.append({**o, "x": nx})
            yield {**doc, "inst": {**inst, "items": new_items}, "ops": new_ops}
    # 4. reduce a multiplicity (remove the last occurrence in every x)
    for t, it in enumerate(items):
        if it[2] > 1:
            new_items = [list(r) for r in items]
            new_items[t][2] -= 1
            new_ops = []
            for o in ops:
                if o["op"] != "decode":
                    new_ops.append(o)
                    continue
                nx = list(o["x"])
                for i in range(len(nx) - 1, -1, -1):
                    if abs(nx[i]) == t + 1:
                        del nx[i]
                        break
                new_ops.append({**o, "x": nx})
            yield {**doc, "inst": {**inst, "items": new_items}, "ops": new_ops}
    # 5. shrink dimensions
    for key in ("W", "H"):
        for v in core.int_shrinks(inst[key], 1):
            if v >= 1:
                new_inst = {**inst, key: v}
                if packgen.valid_inst(new_inst):
                    yield {**doc, "inst": new_inst}
    for t, it in enumerate(items):
        for c in (0, 1):
            for v in core.int_shrinks(it[c], 1):
                if v >= 1:
                    new_items = [list(r) for r in items]
                    new_items[t][c] = v
                    new_inst = {**inst, "items": new_items}
                    if packgen.valid_inst(new_inst):
                        yield {**doc, "inst": new_inst}
    # 6. remove signs
    for oi, o in enumerate(ops):
        if o["op"] == "decode" and any(v < 0 for v in o["x"]):
            new_ops = list(ops)
            new_ops[oi] = {**o, "x": [abs(v) for v in o["x"]]}
            yield {**doc, "ops": new_ops}
