"""C04 - stored-packing corruption: validate/from_str/from_log vs. feasibility oracle."""
from __future__ import annotations

import os
import random

from simkit import core
from simkit.engines import packgen
from simkit.oracles import packing as orc

PROPERTY = "C04"
SIM_TIME_UNIT = "store/recover cycles (no clock in this property)"
STATE_MEASURE = ("distinct (storage form, fault-kind tuple, violated feasibility "
                 "clauses, outcome accepted/rejected/raised) tuples")
RULE = (
    "Scenario = an instance, a feasible packing (reference-model decoding, then "
    "0-3 legal edits: row shuffle, contiguous bin renumbering, relocation or "
    "in-place rotation of an item where that stays feasible), persisted as "
    "(a) a complete moptipy log file written with the real FileLogger, (b) the "
    "to_str text, (c) the live array, then damaged by 0-4 faults (text: digit "
    "flips, inserted/deleted characters, dropped/duplicated/swapped fields and "
    "rows, torn writes, cut end marker, benign comments/blank lines/CRLF; array: "
    "single-field edits, swapped dimensions, one-dimension-matching sizes, "
    "exchanged or relabelled ids, moved rows, bin gaps, wrong n_bins, dtype, "
    "shape) and recovered through validate / from_str / Packing.from_log. "
    "Non-trivial = at least one fault actually changed the stored form; distinct "
    "= distinct scenario-document digests."
    " Thread scenarios: two caller threads validate at the same time (one shared PackingSpace or an instance and a space each), released one at a time at line events of the repository code by the scenario's schedule; non-trivial = at least one switch happened.")
COMPONENTS = {
    "real": ["PackingSpace.validate / to_str / from_str / create / is_equal",
             "Packing, Packing.from_log, _PackingParser",
             "moptipy FileLogger (writer) and LogParser.parse_file (reader)",
             "binpacking2d Instance (constructor, from_resource)"],
    "stub": ["the storage medium: files in /verif/.work/tmp and the in-memory "
             "array, damaged by the simulator",
             "the producer of the packing (reference BL model + legal edits)"],
}
ASSUMPTIONS = [
    "the feasibility predicate in simkit/oracles/packing.py is the reading of "
    "the property statement (shape/type, ids, multiplicity, size in one of two "
    "orientations, inside the bin, pairwise disjoint, bins 1..k, n_bins = k)",
    "numpy text parsing (np.fromstring) and moptipy's log reader are trusted",
    "seeded search: a clean batch is evidence, not proof",
]
TEXT_FAULTS = ["flip_digit", "delete_char", "insert_digit", "insert_minus",
               "drop_field", "dup_field", "swap_fields", "drop_row", "dup_row",
               "truncate", "cut_end_marker"]
BENIGN = ["benign_comment", "benign_blank", "benign_crlf"]
ARRAY_FAULTS = ["field_pm1", "field_from_other_row", "field_zero", "field_neg1",
                "field_binbound", "field_extreme", "swap_wh", "one_dim_match",
                "exchange_ids", "relabel_identical", "move_bin", "new_bin_gap",
                "n_bins_off", "n_bins_nonint", "wrong_dtype", "wrong_shape"]
FAULT_KINDS = TEXT_FAULTS + BENIGN + ARRAY_FAULTS + [
    "caller_threads_interleaved",
    "same_name_other_instance"]
CLAUSES = ["shape", "id", "bin-range", "coords", "outside", "size", "overlap",
           "multiplicity", "bin-gap", "n_bins"]
_ALONE = ["outside", "size", "overlap", "multiplicity", "bin-gap", "n_bins",
          "shape"]
PROBES = [f"only:{c}" for c in _ALONE] + [f"saw:{c}" for c in CLAUSES] + [
    "one_dim_matches_other_not", "torn_log_rejected", "benign_edit_accepted",
    "legal_edit_accepted", "instance_from_setup_section",
    "shared_space_history",
    "corrupted_but_still_feasible", "store:log", "store:text", "store:array",
    "dtype:int8", "dtype:int16", "dtype:int32"]
HARD_CAP_S = 120.0
CHUNK = 16


def plan(tier: str) -> list:
    if tier == "quick":
        return [{"name": "nofault", "n": 3000, "faults": False, "big": False},
                {"name": "fault", "n": 27000, "faults": True, "big": False},
                {"name": "threads", "n": 1500, "faults": True, "big": False,
                 "threads": True}]
    return [{"name": "nofault", "n": 60000, "faults": False, "big": True},
            {"name": "fault", "n": 1200000, "faults": True, "big": True},
            {"name": "threads", "n": 60000, "faults": True, "big": False,
             "threads": True}]


def warmup() -> None:
    for doc in directed("quick")[:3]:
        execute(doc)


# ------------------------------------------------------------------ generation

def _generate_threads(rng: random.Random, batch: dict) -> dict:
    """Two caller threads validating live packings at the same time: with
    one shared PackingSpace (validate keeps no state) or with an instance
    and a space each (possibly of different sizes)."""
    def array_case(inst):
        while True:
            c = generate(rng, {**batch, "threads": False}, depth=1, inst=inst)
            if c["store"] == "array":
                c.pop("inst", None)
                return c
    while True:
        inst_a = packgen.gen_instance(rng, big=False, shipped_p=0.0,
                                      single_digit_bias=0.45)
        if sum(it[2] for it in inst_a["items"]) <= 24:
            break
    share = rng.random() < 0.6
    inst_b = None
    if not share:
        while True:
            inst_b = packgen.gen_instance(rng, big=False, shipped_p=0.0,
                                          single_digit_bias=0.45)
            if sum(it[2] for it in inst_b["items"]) <= 24:
                break
    threads = []
    for inst in (inst_a, inst_b or inst_a):
        threads.append({"cases": [array_case(inst) for _ in range(
            rng.choice([1, 2, 3]))], "picks": [
            [rng.random(), rng.random(), rng.random()]
            for _ in range(rng.choice([1, 2, 4, 8]))]})
    return {"inst": inst_a, "inst_b": inst_b, "threads": threads,
            "x": [], "encoder": 1, "legal_edits": [], "store": "array",
            "faults": [], "inst_from_setup": False}


def generate(rng: random.Random, batch: dict, depth: int = 0,
             inst: dict | None = None) -> dict:
    if batch.get("threads") and depth == 0:
        return _generate_threads(rng, batch)
    if inst is None:
        inst = packgen.gen_instance(rng, big=batch.get("big", False),
                                    shipped_p=0.06, single_digit_bias=0.45)
    items = packgen.resolve_items(inst)
    base = [i + 1 for i, it in enumerate(items) for _ in range(it[2])]
    rng.shuffle(base)
    x = [v if rng.random() < 0.6 else -v for v in base]
    encoder = rng.choice([1, 2])
    legal = []
    for _ in range(rng.choice([0, 0, 1, 2, 3])):
        legal.append({"kind": rng.choice(
            ["shuffle_rows", "renumber_bins", "relocate", "rotate_in_place",
             "to_new_bin"]),
            "seed": rng.getrandbits(32)})
    store = rng.choice(["log", "text", "array", "array"])
    faults: list = []
    if batch.get("faults", False) and (depth == 0 or rng.random() < 0.6):
        n_f = rng.choice([1, 1, 1, 1, 2, 2, 3, 4])
        if store == "array":
            pool = ARRAY_FAULTS
        elif store == "text":
            pool = TEXT_FAULTS[:-2] + ["truncate"]
        else:
            pool = TEXT_FAULTS + BENIGN + BENIGN
        for _ in range(n_f):
            faults.append({"kind": rng.choice(pool),
                           "seed": rng.getrandbits(32)})
    else:
        if store == "log" and rng.random() < 0.5:
            faults.append({"kind": rng.choice(BENIGN),
                           "seed": rng.getrandbits(32)})
    use_setup = ("resource" in inst) and store == "log" \
        and rng.random() < 0.6
    doc = {"inst": inst, "x": x, "encoder": encoder, "legal_edits": legal,
           "store": store, "faults": faults, "inst_from_setup": use_setup}
    if depth == 0 and rng.random() < 0.4:
        # further store/recover cycles on the same instance and space
        more = []
        for _ in range(rng.choice([1, 1, 2, 4])):
            sub = generate(rng, batch, depth=1, inst=inst)
            sub.pop("inst")
            more.append(sub)
        doc["more"] = more
    if depth == 0 and "resource" not in inst and rng.random() < 0.1:
        twin = generate(rng, batch, depth=2)
        if "resource" not in twin["inst"]:
            doc["twin"] = twin
    return doc


def directed(tier: str) -> list:
    docs = []
    inst = {"W": 10, "H": 10, "items": [[3, 5, 1], [2, 2, 1]]}
    # the one-dimension-matching corruption (see DESIGN section 6)
    docs.append({"inst": inst, "x": [1, 2], "encoder": 1, "legal_edits": [],
                 "store": "array", "inst_from_setup": False,
                 "faults": [{"kind": "one_dim_match", "seed": 1}]})
    docs.append({"inst": inst, "x": [1, 2], "encoder": 1, "legal_edits": [],
                 "store": "array", "inst_from_setup": False,
                 "faults": [{"kind": "one_dim_match", "seed": 2}]})
    docs.append({"inst": {"W": 9, "H": 7, "items": [[3, 5, 2], [2, 4, 2]]},
                 "x": [1, -2, 2, 1], "encoder": 2, "legal_edits": [],
                 "store": "text", "inst_from_setup": False,
                 "faults": [{"kind": "flip_digit", "seed": 3}]})
    for k, kind in enumerate(ARRAY_FAULTS):
        docs.append({"inst": {"W": 8, "H": 6,
                              "items": [[3, 5, 2], [2, 2, 3], [5, 3, 1]]},
                     "x": [1, 2, -3, 2, 1, 2], "encoder": 2,
                     "legal_edits": [{"kind": "shuffle_rows", "seed": k}],
                     "store": "array", "inst_from_setup": False,
                     "faults": [{"kind": kind, "seed": 100 + k}]})
    for k, kind in enumerate(TEXT_FAULTS + BENIGN):
        docs.append({"inst": {"resource": "asqas08"},
                     "x": [3, 1, -2, 4, 5, -6, 7, 8], "encoder": 1,
                     "legal_edits": [{"kind": "renumber_bins", "seed": k}],
                     "store": "log", "inst_from_setup": k % 2 == 0,
                     "faults": [{"kind": kind, "seed": 200 + k}]})
    for k in range(4):
        docs.append({"inst": {"W": 10, "H": 10,
                              "items": [[7, 7, 2], [3, 3, 3], [2, 5, 1]]},
                     "x": [1, 1, 2, 2, 2, 3], "encoder": 1,
                     "legal_edits": [{"kind": "relocate", "seed": k},
                                     {"kind": "rotate_in_place", "seed": k},
                                     {"kind": "renumber_bins", "seed": k}],
                     "store": ["log", "text", "array", "log"][k],
                     "inst_from_setup": False, "faults": []})
    return docs


# ------------------------------------------------------------------ legal edits

def _bins_of(rows):
    d = {}
    for i, r in enumerate(rows):
        d.setdefault(r[1], []).append(i)
    return d


def _free(rows, skip, b, rect):
    l1, b1, r1, t1 = rect
    for j, r in enumerate(rows):
        if j == skip or r[1] != b:
            continue
        if r[2] < r1 and r[4] > l1 and r[3] < t1 and r[5] > b1:
            return False
    return True


def apply_legal(rows: list, n_bins: int, W: int, H: int, edit: dict):
    rnd = random.Random(edit["seed"])
    kind = edit["kind"]
    rows = [list(r) for r in rows]
    if kind == "shuffle_rows":
        rnd.shuffle(rows)
    elif kind == "renumber_bins":
        perm = list(range(1, n_bins + 1))
        rnd.shuffle(perm)
        for r in rows:
            r[1] = perm[r[1] - 1]
    elif kind == "relocate":
        # move one item to another free position (same or another open bin)
        for _ in range(20):
            i = rnd.randrange(len(rows))
            r = rows[i]
            w, h = r[4] - r[2], r[5] - r[3]
            if rnd.random() < 0.5:
                w, h = h, w
            if w > W or h > H:
                continue
            b = rnd.randint(1, n_bins)
            # the source bin must not become empty
            if b != r[1] and sum(1 for q in rows if q[1] == r[1]) == 1:
                continue
            lft, bot = rnd.randint(0, W - w), rnd.randint(0, H - h)
            if _free(rows, i, b, (lft, bot, lft + w, bot + h)):
                rows[i] = [r[0], b, lft, bot, lft + w, bot + h]
                break
    elif kind == "to_new_bin":
        # an item moves into a bin of its own (its old bin must stay used)
        for _ in range(20):
            i = rnd.randrange(len(rows))
            r = rows[i]
            if sum(1 for q in rows if q[1] == r[1]) == 1:
                continue
            w, h = r[4] - r[2], r[5] - r[3]
            n_bins += 1
            rows[i] = [r[0], n_bins, 0, 0, w, h]
            break
    elif kind == "rotate_in_place":
        for _ in range(20):
            i = rnd.randrange(len(rows))
            r = rows[i]
            w, h = r[5] - r[3], r[4] - r[2]
            if r[2] + w > W or r[3] + h > H:
                continue
            if _free(rows, i, r[1], (r[2], r[3], r[2] + w, r[3] + h)):
                rows[i] = [r[0], r[1], r[2], r[3], r[2] + w, r[3] + h]
                break
    return rows, n_bins


# ------------------------------------------------------------------ faults

def _clip(v: int, lo: int, hi: int) -> int:
    return max(lo, min(hi, v))


def apply_array_fault(rows, n_bins, meta, items, W, H, lo, hi, fault):
    """Edit rows/n_bins/meta in place; return True if something changed."""
    rnd = random.Random(fault["seed"])
    kind = fault["kind"]
    n = len(rows)
    i = rnd.randrange(n)
    r = rows[i]
    before = ([list(q) for q in rows], n_bins, dict(meta))
    nbi = n_bins if type(n_bins) is int else len({q[1] for q in rows})
    if kind == "field_pm1":
        f = rnd.randrange(6)
        r[f] = _clip(r[f] + rnd.choice([-1, 1]), lo, hi)
    elif kind == "field_from_other_row":
        f = rnd.randrange(6)
        r[f] = rows[rnd.randrange(n)][f]
    elif kind == "field_zero":
        r[rnd.randrange(6)] = 0
    elif kind == "field_neg1":
        r[rnd.randrange(6)] = -1
    elif kind == "field_binbound":
        f = rnd.randrange(2, 6)
        r[f] = _clip(rnd.choice([W, H, W + 1, H + 1]), lo, hi)
    elif kind == "field_extreme":
        r[rnd.randrange(6)] = rnd.choice([lo, hi])
    elif kind == "swap_wh":
        w, h = r[4] - r[2], r[5] - r[3]
        r[4], r[5] = _clip(r[2] + h, lo, hi), _clip(r[3] + w, lo, hi)
    elif kind == "one_dim_match":
        # keep one side equal to a side of the item, make the other wrong,
        # preferably by shrinking so that nothing else becomes infeasible
        order = list(range(n))
        rnd.shuffle(order)
        for j in order:
            q = rows[j]
            if not 1 <= q[0] <= len(items):
                continue
            w, h = items[q[0] - 1][0], items[q[0] - 1][1]
            rw, rh = q[4] - q[2], q[5] - q[3]
            cands = []
            pool = {1, 2, 3, w - 1, w + 1, h - 1, h + 1, rw - 1, rw + 1,
                    rh - 1, rh + 1, w // 2, h // 2}
            pool |= {rnd.randint(1, max(1, min(max(W, H), 1 << 20)))
                     for _ in range(6)}
            others = sorted(v for v in pool if 1 <= v <= (1 << 40))
            for keep in (w, h):
                for other in others:
                    for (nw, nh) in ((keep, other), (other, keep)):
                        if sorted((nw, nh)) == sorted((w, h)):
                            continue
                        if q[2] + nw <= min(W, hi) and q[3] + nh <= min(H, hi):
                            cands.append((nw, nh))
            if cands:
                nw, nh = rnd.choice(cands)
                q[4], q[5] = q[2] + nw, q[3] + nh
                break
    elif kind == "exchange_ids":
        j = rnd.randrange(n)
        r[0], rows[j][0] = rows[j][0], r[0]
    elif kind == "relabel_identical":
        # another item type with identical dimensions, if there is one
        if not 1 <= r[0] <= len(items):
            return False, n_bins
        w, h = items[r[0] - 1][0], items[r[0] - 1][1]
        same = [t + 1 for t, it in enumerate(items)
                if t + 1 != r[0] and sorted(it[:2]) == sorted((w, h))]
        if same:
            r[0] = rnd.choice(same)
        else:
            r[0] = _clip(1 + rnd.randrange(len(items)), lo, hi)
    elif kind == "move_bin":
        r[1] = _clip(rnd.randint(1, max(1, nbi + 1)), lo, hi)
    elif kind == "new_bin_gap":
        r[1] = _clip(nbi + rnd.choice([2, 3]), lo, hi)
    elif kind == "n_bins_off":
        n_bins = nbi + rnd.choice([-1, 1])
    elif kind == "n_bins_nonint":
        n_bins = rnd.choice([None, "1", nbi + 0.5])
    elif kind == "wrong_dtype":
        meta["dtype"] = "wrong"
    elif kind == "wrong_shape":
        if n > 1:
            meta["shape"] = "short"
    return ([list(q) for q in rows], n_bins, dict(meta)) != before, n_bins


def _digit_positions(s: str, a: int, b: int) -> list:
    return [k for k in range(a, b) if s[k].isdigit()]


def apply_text_fault(text: str, span: tuple, fault: dict, end_marker: str):
    """Damage text inside span=(a,b); a fault that cannot apply changes nothing."""
    try:
        return _apply_text_fault(text, span, fault, end_marker)
    except (ValueError, IndexError):
        return text


def _apply_text_fault(text: str, span: tuple, fault: dict, end_marker: str):
    rnd = random.Random(fault["seed"])
    kind = fault["kind"]
    a, b = span
    payload = text[a:b]
    fields = payload.split(";")
    if kind == "flip_digit":
        pos = _digit_positions(text, a, b)
        if not pos:
            return text
        k = rnd.choice(pos)
        d = rnd.choice([c for c in "0123456789" if c != text[k]])
        return text[:k] + d + text[k + 1:]
    if kind == "delete_char":
        if b - a < 1:
            return text
        k = rnd.randrange(a, b)
        return text[:k] + text[k + 1:]
    if kind == "insert_digit":
        k = rnd.randrange(a, b + 1)
        return text[:k] + rnd.choice("0123456789") + text[k:]
    if kind == "insert_minus":
        starts = [0]
        for idx, ch in enumerate(payload):
            if ch == ";":
                starts.append(idx + 1)
        k = a + rnd.choice(starts)
        return text[:k] + "-" + text[k:]
    if kind in ("drop_field", "dup_field", "swap_fields", "drop_row",
                "dup_row"):
        if len(fields) < 6:
            return text
        if kind == "drop_field":
            del fields[rnd.randrange(len(fields))]
        elif kind == "dup_field":
            k = rnd.randrange(len(fields))
            fields.insert(k, fields[k])
        elif kind == "swap_fields":
            k, m = rnd.randrange(len(fields)), rnd.randrange(len(fields))
            fields[k], fields[m] = fields[m], fields[k]
        elif kind == "drop_row":
            k = rnd.randrange(len(fields) // 6) * 6
            del fields[k:k + 6]
        elif kind == "dup_row":
            k = rnd.randrange(len(fields) // 6) * 6
            fields[k:k] = fields[k:k + 6]
        return text[:a] + ";".join(fields) + text[b:]
    if kind == "truncate":
        # a torn write: the file/text ends at an arbitrary byte
        k = rnd.randrange(0, len(text)) if rnd.random() < 0.5 \
            else rnd.randrange(a, max(a + 1, b))
        return text[:k]
    if kind == "cut_end_marker":
        k = text.find(end_marker)
        if k < 0:
            return text
        return text[:k] + text[k + len(end_marker):]
    if kind == "benign_comment":
        lines = text.split("\n")
        k = rnd.randrange(len(lines) + 1)
        lines.insert(k, "# a comment added by a log post-processor")
        return "\n".join(lines)
    if kind == "benign_blank":
        lines = text.split("\n")
        k = rnd.randrange(len(lines) + 1)
        lines.insert(k, rnd.choice(["", "   ", "\t"]))
        return "\n".join(lines)
    if kind == "benign_crlf":
        return text.replace("\n", "\r\n")
    return text


# ------------------------------------------------------------------ execution

def _write_log(path: str, space, y, inst_name: str) -> None:
    from moptipy.api.logging import (SECTION_FINAL_STATE, SECTION_RESULT_Y,
                                     SECTION_SETUP)
    from moptipy.utils.logger import FileLogger
    from moptipy.utils.sys_info import log_sys_info
    from pycommons.io.path import Path
    with FileLogger(Path(path)) as logger:
        with logger.key_values(SECTION_FINAL_STATE) as kv:
            kv.key_value("totalFEs", 1)
            kv.key_value("totalTimeMillis", 1)
            kv.key_value("bestF", int(y.n_bins))
            kv.key_value("lastImprovementFE", 1)
            kv.key_value("lastImprovementTimeMillis", 1)
        with logger.key_values(SECTION_SETUP) as kv:
            kv.key_value("p.name", "LoggingProcessWithSearchSpace")
            kv.key_value("a.name", "rls_swap2orFlip")
            # like a real run: the encoding logs the instance under its own
            # scope as well, before the solution space does
            with kv.scope("g") as sg:
                sg.key_value("name", "ibf2")
                with sg.scope("inst") as si:
                    si.key_value("name", inst_name)
            with kv.scope("y") as sc:
                space.log_parameters_to(sc)
            with kv.scope("x") as sx:
                sx.key_value("name", "signedPermOfString")
                sx.key_value("baseString", "1;1;2")
        log_sys_info(logger)
        with logger.text("RESULT_X") as txt:
            txt.write(";".join(str(((-1) ** i) * (1 + i % 3))
                               for i in range(len(y))))
        with logger.text(SECTION_RESULT_Y) as txt:
            txt.write(space.to_str(y))
        if len(y) % 2 == 0:
            # sections after the result (e.g. the FFA table) must not matter
            with logger.text("H") as txt:
                txt.write("1;2;3;4")


def _execute_threads(doc: dict) -> dict:
    import numpy as np
    from moptipyapps.binpacking2d.packing_space import PackingSpace
    res = core.new_result()
    name = packgen.scenario_name(doc)
    pre = core.Preempt((os.sep + "moptipyapps" + os.sep, ))
    insts = [packgen.build_instance(doc["inst"], name)]
    insts.append(insts[0] if doc.get("inst_b") is None
                 else packgen.build_instance(doc["inst_b"], name + "b"))
    idocs = [doc["inst"], doc.get("inst_b") or doc["inst"]]

    def prepare(ti: int, space):
        inst = insts[ti]
        W, H = int(inst.bin_width), int(inst.bin_height)
        items = [[int(v) for v in row] for row in idocs[ti]["items"]]
        info = np.iinfo(inst.dtype)
        lo, hi = int(info.min), int(info.max)
        todo = []
        for case in doc["threads"][ti]["cases"]:
            rows, nb = orc.bl_decode(W, H, items, case["x"],
                                     int(case["encoder"]))
            for edit in case["legal_edits"]:
                rows, nb = apply_legal(rows, nb, W, H, edit)
            rws, meta = [list(r) for r in rows], {}
            for f in case["faults"]:
                if f["kind"] in ARRAY_FAULTS:
                    _, nb = apply_array_fault(rws, nb, meta, items, W, H, lo,
                                              hi, f)
            if meta:      # wrong dtype / short shape: left to the histories
                rws, nb = [list(r) for r in rows], nb if type(nb) is int \
                    else len({q[1] for q in rows})
            bad = orc.infeasibility(W, H, items, rws, nb)
            todo.append((rws, nb, bad))

        def body():
            out = []
            for rws, nb, _ in todo:
                y = space.create()
                y[:, :] = np.array(rws, dtype=np.int64).astype(inst.dtype)
                y.n_bins = nb
                try:
                    space.validate(y)
                    out.append(True)
                except Exception:  # noqa: BLE001
                    out.append(False)
            return out
        return body, todo

    def make_bodies():
        shared = PackingSpace(insts[0])
        sp = [shared, shared if doc.get("inst_b") is None
              else PackingSpace(insts[1])]
        return [prepare(0, sp[0]), prepare(1, sp[1])]
    points = []
    for (body, _), th in zip(make_bodies(), doc["threads"]):
        _, table = pre.profile(body)
        points.append(core.Preempt.pick_points(table, th["picks"]))
    pairs = make_bodies()
    got, switches = pre.run([b for b, _ in pairs], points)
    core.bump(res["faults"], "caller_threads_interleaved")
    if doc.get("inst_b") is None:
        core.bump(res["probes"], "threads_share_packing_space")
    if switches >= 2:
        core.bump(res["probes"], "thread_switches>=2")
    res["events"].append(["threads", switches])
    for ti, ((_, todo), g) in enumerate(zip(pairs, got)):
        if isinstance(g, BaseException):
            core.violation(res, "validate-raised-unexpectedly",
                           f"thread {ti}: {type(g).__name__}: {g}")
            break
        for (rws, nb, bad), accepted in zip(todo, g):
            res["ops"] += 1
            res["states"].append(f"threads|{tuple(bad)}|{accepted}")
            if accepted and bad:
                core.violation(
                    res, f"accepts-infeasible:{bad[0]}",
                    f"validate accepted a packing that violates {bad} while "
                    f"another thread validated ({switches} switches, shared "
                    f"space: {doc.get('inst_b') is None}): rows={rws} "
                    f"n_bins={nb!r} inst={idocs[ti]}", failing=list(bad))
                break
            if not accepted and not bad:
                core.violation(
                    res, "rejects-feasible",
                    f"validate rejected a feasible packing while another "
                    f"thread validated ({switches} switches, shared space: "
                    f"{doc.get('inst_b') is None}): rows={rws} n_bins={nb!r} "
                    f"inst={idocs[ti]}")
                break
        if res["violation"] is not None:
            break
    res["sim_time"] += 1.0
    res["nontrivial"] = switches >= 1
    return res


def execute(doc: dict) -> dict:
    """Optionally followed by a twin: another instance with the SAME name and
    its own PackingSpace."""
    if doc.get("threads"):
        return _execute_threads(doc)
    name = packgen.scenario_name(doc)
    res = _execute_one(doc, name)
    twin = doc.get("twin")
    if twin is not None and res["violation"] is None:
        r2 = _execute_one(twin, name)
        res["events"].append(["twin"])
        res["events"].extend(r2["events"])
        for key in ("faults", "probes"):
            for k, v in r2[key].items():
                res[key][k] = res[key].get(k, 0) + v
        res["states"].extend(r2["states"])
        res["ops"] += r2["ops"]
        res["sim_time"] += r2["sim_time"]
        res["nontrivial"] = res["nontrivial"] or r2["nontrivial"]
        core.bump(res["faults"], "same_name_other_instance")
        if r2["violation"] is not None:
            res["violation"] = r2["violation"]
            res["violation"]["in_twin"] = True
    return res


def _execute_one(doc: dict, name: str) -> dict:
    import warnings

    import numpy as np
    from moptipyapps.binpacking2d.packing import Packing
    from moptipyapps.binpacking2d.packing_space import PackingSpace

    res = core.new_result()
    inst = packgen.build_instance(doc["inst"], name)
    W, H = int(inst.bin_width), int(inst.bin_height)
    items = [[int(v) for v in row] for row in inst]
    n_items = int(inst.n_items)
    space = PackingSpace(inst)
    info = np.iinfo(inst.dtype)
    lo, hi = int(info.min), int(info.max)
    core.bump(res["probes"], f"dtype:{inst.dtype}")
    cases = [doc] + list(doc.get("more", []))
    any_fired = False
    for ci, case in enumerate(cases):
        # all cases of a scenario share the instance and the PackingSpace:
        # validations after a rejected/accepted predecessor are histories
        out = _run_case(doc, case, ci, res, inst, space, W, H, items,
                        n_items, lo, hi)
        if res["violation"] is not None:
            if ci > 0:
                res["violation"]["case"] = ci
            break
        any_fired = any_fired or bool(out)
    if len(cases) > 1:
        core.bump(res["probes"], "shared_space_history", len(cases) - 1)
    res["nontrivial"] = any_fired
    return res


def _run_case(doc, case, ci, res, inst, space, W, H, items, n_items, lo, hi):
    import warnings

    import numpy as np
    from moptipyapps.binpacking2d.packing import Packing
    store = case["store"]
    core.bump(res["probes"], f"store:{store}")

    rows, n_bins = orc.bl_decode(W, H, items, case["x"], int(case["encoder"]))
    for edit in case["legal_edits"]:
        rows, n_bins = apply_legal(rows, n_bins, W, H, edit)
    if orc.infeasibility(W, H, items, rows, n_bins):
        raise AssertionError("base packing is not feasible: harness bug")
    res["ops"] += 1

    def make_packing(rws, nb, meta=None):
        y = space.create()
        y[:, :] = np.array(rws, dtype=np.int64).astype(inst.dtype)
        y.n_bins = nb
        if meta:
            if meta.get("dtype") == "wrong":
                other = np.int64 if inst.dtype != np.int64 else np.int32
                z = y.astype(other)
                z.instance = inst
                z.n_bins = nb
                y = z
            if meta.get("shape") == "short":
                z = y[:-1]
                z.instance = inst
                z.n_bins = nb
                y = z
        return y

    def judge_array(y, expected_bad, label):
        """validate(y) must raise iff expected_bad is non-empty."""
        try:
            space.validate(y)
            accepted = True
            err = ""
        except Exception as exc:  # noqa: BLE001
            accepted = False
            err = f"{type(exc).__name__}: {exc}"[:200]
        res["events"].append([label, accepted, list(expected_bad)])
        if accepted and expected_bad:
            core.violation(
                res, f"accepts-infeasible:{expected_bad[0]}",
                f"validate accepted a packing that violates {expected_bad}: "
                f"W={W} H={H} items={items} rows={[list(map(int, q)) for q in y]}"
                f" n_bins={y.n_bins!r}", failing=list(expected_bad))
        elif (not accepted) and not expected_bad:
            core.violation(
                res, "rejects-feasible",
                f"validate rejected a feasible packing ({err}): W={W} H={H} "
                f"items={items} rows={[list(map(int, q)) for q in y]} "
                f"n_bins={y.n_bins!r}")
        return accepted

    y0 = make_packing(rows, n_bins)
    # the undamaged packing must always be accepted and round-trip
    judge_array(y0, [], "validate-base")
    if case["legal_edits"] and res["violation"] is None:
        core.bump(res["probes"], "legal_edit_accepted")
    if res["violation"] is not None:
        return False
    faults = case["faults"]
    fired = []

    if store == "array":
        rws = [list(r) for r in rows]
        nb = n_bins
        meta: dict = {}
        for f in faults:
            changed, nb = apply_array_fault(rws, nb, meta, items, W, H, lo,
                                            hi, f)
            if changed:
                fired.append(f["kind"])
                core.bump(res["faults"], f["kind"])
        bad = orc.infeasibility(W, H, items, rws, nb)
        if meta.get("dtype") == "wrong" and "shape" not in bad:
            bad = ["shape"] + bad
        if meta.get("shape") == "short":
            bad = ["shape"]
        y = make_packing(rws, nb, meta)
        accepted = judge_array(y, bad, "validate-damaged")
        if len(bad) == 1 and bad[0] in _ALONE:
            core.bump(res["probes"], f"only:{bad[0]}")
        for c in bad:
            core.bump(res["probes"], f"saw:{c}")
        if bad == ["size"]:
            for q in rws:
                if not 1 <= q[0] <= len(items):
                    continue
                w, h = items[q[0] - 1][0], items[q[0] - 1][1]
                rw, rh = q[4] - q[2], q[5] - q[3]
                if (rw in (w, h) or rh in (w, h)) and \
                        sorted((rw, rh)) != sorted((w, h)):
                    core.bump(res["probes"], "one_dim_matches_other_not")
                    break
        if fired and not bad:
            core.bump(res["probes"], "corrupted_but_still_feasible")
        res["states"].append(f"array|{tuple(fired)}|{tuple(bad)}|{accepted}")
    else:
        text0 = space.to_str(y0)
        # fault-free round trip of the text form
        try:
            with warnings.catch_warnings():
                warnings.simplefilter("ignore")
                back = space.from_str(text0)
            same = (np.array_equal(back, y0) and back.n_bins == n_bins
                    and back.dtype == y0.dtype and back.shape == y0.shape)
        except Exception as exc:  # noqa: BLE001
            same = False
            back = f"{type(exc).__name__}: {exc}"[:200]
        res["events"].append(["roundtrip-text", bool(same)])
        if not same:
            core.violation(
                res, "text-roundtrip-differs",
                f"from_str(to_str(y)) != y: W={W} H={H} items={items} "
                f"rows={rows} n_bins={n_bins}; got "
                f"{back if isinstance(back, str) else [list(map(int, q)) for q in back]}")
            return False
        if store == "text":
            text = text0
            span = (0, len(text))
            for f in faults:
                new = apply_text_fault(text, (0, len(text)), f, "\x00")
                if new != text:
                    fired.append(f["kind"])
                    core.bump(res["faults"], f["kind"])
                text = new
            how = "from_str"

            def parse():
                return space.from_str(text)
        else:
            wd = os.path.join(core.WORK, "tmp")
            os.makedirs(wd, exist_ok=True)
            path = os.path.join(
                wd, "c04-%d-%s.txt" % (os.getpid(), core.digest(
                    [doc["inst"], case, ci])[:16]))
            name = doc["inst"].get("resource", str(inst))
            _write_log(path, space, y0, name)
            with open(path, encoding="utf-8") as fh:
                text = fh.read()
            a = text.index("BEGIN_RESULT_Y\n") + len("BEGIN_RESULT_Y\n")
            b = text.index("\nEND_RESULT_Y")
            benign_only = True
            for f in faults:
                if f["kind"] in BENIGN:
                    new = apply_text_fault(text, (a, b), f, "END_RESULT_Y")
                else:
                    benign_only = False
                    # payload position may have moved after earlier faults
                    a2 = text.find("BEGIN_RESULT_Y")
                    b2 = text.find("END_RESULT_Y")
                    if a2 >= 0:
                        nl = text.find("\n", a2)
                        a2 = nl + 1 if nl >= 0 else len(text)
                    else:
                        a2 = 0
                    if b2 < 0 or b2 < a2:
                        b2 = len(text)
                    else:
                        b2 = max(a2, b2 - 1)
                    new = apply_text_fault(text, (a2, b2), f, "END_RESULT_Y")
                if new != text:
                    fired.append(f["kind"])
                    core.bump(res["faults"], f["kind"])
                text = new
            with open(path, "w", encoding="utf-8", newline="") as fh:
                fh.write(text)
            how = "from_log"
            use_setup = bool(case.get("inst_from_setup")) \
                and "resource" in doc["inst"]
            if use_setup:
                core.bump(res["probes"], "instance_from_setup_section")

            def parse():
                try:
                    return Packing.from_log(path, None if use_setup else inst)
                finally:
                    if os.path.exists(path):
                        os.remove(path)
        benign = all(k in BENIGN for k in fired)
        try:
            with warnings.catch_warnings():
                warnings.simplefilter("ignore")
                got = parse()
            raised = ""
        except Exception as exc:  # noqa: BLE001
            got = None
            raised = f"{type(exc).__name__}: {exc}"[:300]
            cause = exc.__cause__
            while cause is not None:
                raised += f" <- {type(cause).__name__}: {cause}"[:200]
                cause = cause.__cause__
        if got is None:
            res["events"].append([how, "raised"])
            res["states"].append(f"{store}|{tuple(fired)}|raised")
            if benign:
                core.violation(
                    res, "benign-edit-rejected" if fired
                    else "undamaged-store-rejected",
                    f"{how} raised on an undamaged / benignly edited store "
                    f"(edits {fired}): {raised}; W={W} H={H} items={items} "
                    f"rows={rows}")
            elif "truncate" in fired or "cut_end_marker" in fired:
                core.bump(res["probes"], "torn_log_rejected")
        else:
            grows = [[int(v) for v in q] for q in got]
            gn = got.n_bins
            gi = got.instance
            gitems = [[int(v) for v in row] for row in gi]
            bad = orc.infeasibility(int(gi.bin_width), int(gi.bin_height),
                                    gitems, grows, gn)
            if gitems != items or int(gi.bin_width) != W \
                    or int(gi.bin_height) != H:
                bad = ["shape"] + bad
            # "right shape" also holds for the stored form: a text that does
            # not hold exactly n_items*6 integers must not yield a packing
            import re
            payload = text
            if store == "log":
                a3 = text.find("BEGIN_RESULT_Y")
                b3 = text.find("END_RESULT_Y")
                payload = text[a3 + len("BEGIN_RESULT_Y"):b3] \
                    if 0 <= a3 < b3 else ""
                payload = "\n".join(
                    ln.split("#")[0] for ln in payload.splitlines())
            # only for well-formed integer lists (malformed tokens such as a
            # lone "-" are read leniently by numpy on the unchanged tree and
            # are left to the feasibility oracle)
            if re.fullmatch(r"\s*-?\d+(\s*;\s*-?\d+)*\s*", payload):
                n_tok = len(re.findall(r"-?\d+", payload))
                if n_tok != n_items * 6 and "shape" not in bad:
                    bad = ["shape"] + bad
                # ... and what is returned is what the store holds, sign
                # included (values outside the storage type are left to numpy)
                toks = [int(t) for t in re.findall(r"-?\d+", payload)]
                if n_tok == n_items * 6 and all(lo <= t <= hi for t in toks) \
                        and [toks[k:k + 6] for k in range(0, n_tok, 6)] \
                        != grows:
                    bad = ["content"] + bad
            res["events"].append([how, "returned", core.digest(grows)[:12],
                                  list(bad)])
            res["states"].append(
                f"{store}|{tuple(fired)}|returned|{tuple(bad)}")
            if bad:
                core.violation(
                    res, f"parser-returned-infeasible:{bad[0]}",
                    f"{how} returned a packing violating {bad} after faults "
                    f"{fired}: W={W} H={H} items={items} rows={grows} "
                    f"n_bins={gn!r}", failing=list(bad))
            elif benign and (grows != rows or gn != n_bins):
                core.violation(
                    res, "store-roundtrip-differs",
                    f"{how} of an undamaged / benignly edited store (edits "
                    f"{fired}) differs from the stored packing: stored "
                    f"{rows} n_bins={n_bins}, got {grows} n_bins={gn!r}")
            elif benign and fired:
                core.bump(res["probes"], "benign_edit_accepted")
            elif fired:
                core.bump(res["probes"], "corrupted_but_still_feasible")
    res["sim_time"] += 1.0
    return bool(fired)


# ------------------------------------------------------------------ shrinking

def reductions(doc: dict):
    if doc.get("threads"):
        for i, th in enumerate(doc["threads"]):
            for key, mn in (("picks", 0), ("cases", 1)):
                for cand in core.list_deletions(th[key], mn):
                    ths = [dict(t) for t in doc["threads"]]
                    ths[i][key] = cand
                    yield {**doc, "threads": ths}
        return
    if doc.get("twin") is not None:
        yield {k: v for k, v in doc.items() if k != "twin"}
        for cand in reductions(doc["twin"]):
            yield {**doc, "twin": cand}
    if doc.get("more"):
        for cand in core.list_deletions(doc["more"], 0):
            yield {**doc, "more": cand}
        # promote a later case to be the only one
        for sub in doc["more"]:
            yield {**{k: v for k, v in doc.items() if k != "more"}, **sub}
        for mi, sub in enumerate(doc["more"]):
            for key in ("faults", "legal_edits"):
                if sub[key]:
                    for cand in core.list_deletions(sub[key], 0):
                        more = list(doc["more"])
                        more[mi] = {**sub, key: cand}
                        yield {**doc, "more": more}
    for cand in core.list_deletions(doc["faults"], 0):
        yield {**doc, "faults": cand}
    for cand in core.list_deletions(doc["legal_edits"], 0):
        yield {**doc, "legal_edits": cand}
    inst = doc["inst"]
    if "resource" in inst:
        if not doc.get("inst_from_setup"):
            items = packgen.resolve_items(inst)
            W, H = packgen.resolve_bin(inst)
            yield {**doc, "inst": {"W": W, "H": H, "items": items}}
        return
    items = inst["items"]
    x = doc["x"]
    if len(items) > 1:
        for t in range(len(items)):
            new_items = items[:t] + items[t + 1:]
            nx = []
            for v in x:
                a = abs(v)
                if a == t + 1:
                    continue
                a2 = a - 1 if a > t + 1 else a
                nx.append(a2 if v > 0 else -a2)
            if nx:
                yield {**doc, "inst": {**inst, "items": new_items}, "x": nx}
    for t, it in enumerate(items):
        if it[2] > 1:
            new_items = [list(r) for r in items]
            new_items[t][2] -= 1
            nx = list(x)
            for i in range(len(nx) - 1, -1, -1):
                if abs(nx[i]) == t + 1:
                    del nx[i]
                    break
            yield {**doc, "inst": {**inst, "items": new_items}, "x": nx}
    for key in ("W", "H"):
        for v in core.int_shrinks(inst[key], 1):
            if v >= 1:
                new_inst = {**inst, key: v}
                if packgen.valid_inst(new_inst):
                    yield {**doc, "inst": new_inst}
    for t, it in enumerate(items):
        for c in (0, 1):
            for v in core.int_shrinks(it[c], 1):
                if v >= 1:
                    new_items = [list(r) for r in items]
                    new_items[t][c] = v
                    new_inst = {**inst, "items": new_items}
                    if packgen.valid_inst(new_inst):
                        yield {**doc, "inst": new_inst}
    if any(v < 0 for v in x):
        yield {**doc, "x": [abs(v) for v in x]}
    if doc["store"] == "log" and not any(
            f["kind"] in BENIGN + ["cut_end_marker"] for f in doc["faults"]):
        yield {**doc, "store": "text"}
    for fi, f in enumerate(doc["faults"]):
        for s in (0, 1, 2, 3):
            if f["seed"] != s:
                nf = list(doc["faults"])
                nf[fi] = {**f, "seed": s}
                yield {**doc, "faults": nf}
