"""C10 - run_ode under fault-plan controllers/plants: termination, bounds, consistency."""
from __future__ import annotations

import math
import os
import random

from simkit import core
from simkit.core import fhex, unhex
from simkit.oracles import ode as orc

PROPERTY = "C10"
SIM_TIME_UNIT = "simulated ODE time units (sum of t[-1] over returned trajectories)"
STATE_MEASURE = ("distinct (fault kind, fault target, bad value, outcome class "
                 "full/shortened/failure, state dim, control dim) tuples plus "
                 "trajectory digests")
RULE = (
    "Scenario = a linear plant ds/dt = A s + B c (eigenvalues from stable to "
    "exponentially diverging), a linear state-feedback controller c = p K s, 1-3 "
    "starting states run through multi_run_ode (test and training legs with "
    "their own step counts and time limits), and a fault plan that is a pure "
    "function of simulated time and state: the controller or the plant returns "
    "NaN, +-inf, 1e50, -1e11 or exactly +-1e10 always / after t* / inside a "
    "window (possibly narrower than the output grid) / at t=0 only / when a "
    "state component exceeds a threshold; a minority of scenarios use the "
    "bundled Stuart-Landau, Lorenz and coupled-oscillator systems. Non-trivial = "
    "a fault actually fired during integration or the plant diverged by itself "
    "(retry logic exercised); distinct = distinct scenario-document digests."
    ' Further batches: System.describe_system writes the results table of the simulations judged before (and again after the equations were replaced); two caller threads simulate at the same time under the line-event scheduler and each must get what it gets alone; starting states also arrive as int64/float32 arrays, tuples or from a generator over one re-used buffer.')
COMPONENTS = {
    "real": ["run_ode, __IntegrationState.f, _is_ok (retry loop, interpolation)",
             "j_from_ode / __j_from_ode_compute, t_from_ode, diff_from_ode",
             "multi_run_ode (collector ordering)", "scipy RK45",
             "bundled systems/controllers in the 'bundled' batch"],
    "stub": ["controller and plant callables (fault-plan closures over simulated "
             "time and state, wrapped in call counters)"],
}
ASSUMPTIONS = [
    "J, T and differentials are recomputed from the returned array with "
    "math.fsum / plain float arithmetic (simkit/oracles/ode.py); J compared at "
    "relative 1e-9",
    "bounded liveness is decided on the synthetic linear plants only: "
    "controller+plant calls below a cap calibrated on the unchanged tree (x50 "
    "margin) and the wall-clock cap per scenario; finite but enormous legal "
    "gains (stiff closed loops) are excluded from the fault families because "
    "they are slow, not non-terminating; a bundled nonlinear scenario that "
    "exceeds its call budget is recorded as undecided, never as a violation",
    "closed-form comparison (fault-free, linear) at tolerances calibrated per "
    "growth class on the unchanged tree with a factor-20 margin (RK45 rtol "
    "1e-3): 0.016 for non-growing loops up to 0.46 for e^(>15) growth",
    "scipy RK45, numba, numpy are trusted",
]
FAULT_KINDS = ["caller_threads_interleaved", "ctrl:always", "ctrl:after", "ctrl:window", "ctrl:at_zero",
               "ctrl:at_end", "start_state_out_of_bounds",
               "ctrl:state", "plant:always", "plant:after", "plant:window",
               "plant:state", "plant:diverges_by_itself"]
PROBES = ["outcome:full", "outcome:shortened", "outcome:failure",
          "shortened_before_fault_time", "first_row_controller_bad",
          "window_narrower_than_grid", "multi_leg", "bundled_system",
          "closed_form_checked", "several_collectors", "bad:nan", "bad:inf", "bad:-inf", "bad:1e50",
          "bad:-1e11", "bad:1e10", "bad:-1e10"]
HARD_CAP_S = 90.0
CHUNK = 8
CALL_CAP = 200_000   # synthetic plants: 50 x the largest count (3 693) seen in calibration
CALL_CAP_BUNDLED = 1_000_000   # bundled systems: give up (undecided, never a violation)
# closed-form tolerance by growth class (largest positive real part of the
# closed loop x simulated time): 20 x the largest deviation seen in a
# calibration of 4 402 fault-free legs on the unchanged tree
CLOSED_FORM_TOL = [(0.01, 0.016), (1.0, 0.04), (5.0, 0.15), (15.0, 0.29),
                   (float("inf"), 0.46)]
BAD = {"nan": float("nan"), "inf": float("inf"), "-inf": float("-inf"),
       "1e50": 1e50, "-1e11": -1e11, "1e10": 1e10, "-1e10": -1e10}


def plan(tier: str) -> list:
    if tier == "quick":
        return [{"name": "nofault", "n": 4000, "faults": False},
                {"name": "fault", "n": 20000, "faults": True},
                {"name": "bundled", "n": 200, "faults": True, "bundled": True},
                {"name": "describe", "n": 96, "faults": True,
                 "describe": True},
                {"name": "threads", "n": 300, "faults": False,
                 "threads": True}]
    return [{"name": "nofault", "n": 60000, "faults": False},
            {"name": "fault", "n": 400000, "faults": True},
            {"name": "bundled", "n": 3000, "faults": True, "bundled": True},
            {"name": "describe", "n": 3000, "faults": True, "describe": True},
            {"name": "threads", "n": 20000, "faults": False, "threads": True}]


def warmup() -> None:
    for doc in directed("quick")[:2]:
        execute(doc)


# ------------------------------------------------------------------ generation

def _rf(rng: random.Random, lo: float, hi: float) -> float:
    return round(rng.uniform(lo, hi), 3)


def generate(rng: random.Random, batch: dict) -> dict:
    if batch.get("bundled"):
        return _gen_bundled(rng)
    if batch.get("describe"):
        return _gen_describe(rng, batch)
    if batch.get("threads"):
        # two caller threads simulate at the same time (own arrays, own
        # controller and equation closures); thread i runs leg i
        doc = generate(rng, {**batch, "threads": False})
        legs = doc["legs"][:2]
        while len(legs) < 2:
            legs.append({"s0": [_rf(rng, -1.0, 1.0)
                                for _ in range(doc["sd"])], "test": False})
        legs[0]["test"], legs[1]["test"] = True, rng.random() < 0.5
        return {**doc, "legs": legs,
                "test_steps": min(doc["test_steps"], 50),
                "train_steps": min(doc["train_steps"], 30),
                "test_time": min(doc["test_time"], 5.0),
                "train_time": min(doc["train_time"], 5.0),
                "threads": {"picks": [[[rng.random(), rng.random(),
                                        rng.random()]
                                       for _ in range(rng.choice([1, 2, 4, 8]))]
                                      for _ in range(2)]}}
    sd = rng.choice([1, 2, 2, 3, 4, 6] if "describe" in batch
                    else [1, 2, 2, 3, 4])
    cd = rng.choice([1, 1, 2])
    A = [[0.0] * sd for _ in range(sd)]
    for i in range(sd):
        A[i][i] = _rf(rng, -2.0, 1.5) if rng.random() < 0.8 \
            else rng.choice([0.0, -1.0, 1.0])
        for j in range(sd):
            if i != j and rng.random() < 0.3:
                A[i][j] = _rf(rng, -1.0, 1.0)
    B = [[_rf(rng, -1.0, 1.0) for _ in range(cd)] for _ in range(sd)]
    if rng.random() < 0.08:
        B = [[0.0] * cd for _ in range(sd)]     # equations ignore the control
    K = [[_rf(rng, -1.0, 1.0) for _ in range(sd)] for _ in range(cd)]
    p = rng.choice([0.0, 1.0, -1.0, _rf(rng, -3.0, 3.0)])
    # an explicit time term makes the controller depend on t as well
    tq = rng.choice([0.0, 0.0, 0.0, 0.05, -0.2, 1.0])
    legs = []
    for _ in range(rng.choice([1, 1, 2, 3])):
        s0 = [_rf(rng, -1.0, 1.0) for _ in range(sd)]
        if batch.get("faults") and rng.random() < 0.06:
            # a starting state on or beyond the sanity bound
            s0[rng.randrange(sd)] = rng.choice(
                [1e10, -1e10, 1.5e10, 9.999e9, -9.999e9])
        leg = {"s0": s0, "test": rng.random() < 0.4}
        if rng.random() < 0.12 and all(abs(v) < 100 for v in s0):
            # callers also pass starting states as integer or float32 arrays
            if rng.random() < 0.5:
                leg["s0"] = [float(rng.randint(-2, 2)) for _ in range(sd)]
                leg["dtype"] = "int64"
            else:
                leg["dtype"] = "float32"
        legs.append(leg)
    tsteps = rng.choice([10, 11, 20, 50, 100, 400])
    rsteps = rng.choice([10, 13, 30, 100, 250])
    ttime = rng.choice([0.5, 1.0, 2.0, 5.0, 10.0, 50.0, 1e-3, 1.0 / 3.0, 0.1])
    rtime = rng.choice([0.5, 1.0, 3.0, 8.0, 20.0, 50.0, 1e-6, 0.7, 2.0 / 3.0])
    fault = {"kind": "none"}
    if batch.get("faults"):
        target = rng.choice(["ctrl", "ctrl", "plant"])
        kinds = ["always", "after", "after", "window", "window", "state"]
        if target == "ctrl":
            kinds.append("at_zero")
            kinds.append("at_end")
        kind = rng.choice(kinds)
        tmax = max(ttime, rtime)
        t1 = _rf(rng, 0.0, tmax)
        if kind == "at_end":
            t1 = min(ttime, rtime)    # bad from the earliest final output time
        width = rng.choice([0.0, 1e-3, 0.01, 0.1, 1.0, 10.0])
        fault = {"kind": kind, "target": target,
                 "t1": fhex(t1), "t2": fhex(t1 + width),
                 "strict": rng.random() < 0.3,
                 "r": fhex(rng.choice([0.5, 1.0, 2.0, 10.0, 1e3, 1e6])),
                 "k": rng.randrange(4),
                 "bad": rng.choice(sorted(BAD))}
    use = rng.choice([-1, -1, 1, sd])
    gamma = rng.choice([0.1, 0.1, 0.5, 1.0, 0.0])
    return {"sd": sd, "cd": cd, "A": A, "B": B, "K": K, "p": p, "tq": tq,
            "legs": legs, "starts_as": rng.choice(
                ["list", "list", "list", "tuple", "generator_reused_buffer"]),
            "test_steps": tsteps, "train_steps": rsteps,
            "test_time": ttime, "train_time": rtime, "fault": fault,
            "use_state_dims": use, "gamma": gamma}


BUNDLED = [("stuart_landau", "linear"), ("stuart_landau", "quadratic"),
           ("stuart_landau", "cubic"), ("lorenz", "linear"),
           ("lorenz", "quadratic"), ("stuart_landau", "anns"),
           ("lorenz", "anns"), ("three_coupled_oscillators", "anns"),
           ("stuart_landau", "peaks"), ("stuart_landau", "partially_linear"),
           ("lorenz", "min_anns"), ("three_coupled_oscillators", "anns")]
# ("lorenz", "cubic") is left out: with any non-zero gain the closed loop is
# stiff (millions of RK45 steps) - slow, not non-terminating.


def _gen_describe(rng: random.Random, batch: dict) -> dict:
    """A System object writes its results table (System.describe_system)."""
    while True:
        doc = generate(rng, {**batch, "describe": False,
                             "faults": rng.random() < 0.5})
        sd = doc["sd"]
        mods = [m for m in (2, 3) if sd % m == 0]
        if mods:
            break
    mod = rng.choice(mods)
    legs = doc["legs"][:3]
    while len(legs) < 2:
        legs.append({"s0": [_rf(rng, -1.0, 1.0) for _ in range(sd)],
                     "test": False})
    legs[0]["test"], legs[1]["test"] = True, False
    in_j = rng.randint(1, sd)
    return {**doc, "legs": legs, "use_state_dims": in_j,
            "test_steps": min(doc["test_steps"], 50),
            "train_steps": min(doc["train_steps"], 30),
            "describe": {"mod": mod, "in_j": in_j,
                         "redescribe": rng.random() < 0.4}}


def _gen_bundled(rng: random.Random) -> dict:
    system, ctrl = rng.choice(BUNDLED)
    fault = {"kind": "none"}
    if rng.random() < 0.6:
        kind = rng.choice(["after", "window", "state", "always"])
        t1 = _rf(rng, 0.0, 6.0)
        fault = {"kind": kind, "target": rng.choice(["ctrl", "plant"]),
                 "t1": fhex(t1), "t2": fhex(t1 + rng.choice([0.01, 0.5, 3.0])),
                 "strict": False, "r": fhex(rng.choice([1.0, 5.0, 50.0])),
                 "k": rng.randrange(3), "bad": rng.choice(sorted(BAD))}
    return {"bundled": {"system": system, "controller": ctrl,
                        "params_seed": rng.getrandbits(32),
                        "scale": rng.choice([0.0, 0.1, 1.0, 3.0])},
            "legs": [{"which": rng.randrange(4), "test": rng.random() < 0.5}
                     for _ in range(rng.choice([1, 2]))],
            "test_steps": rng.choice([20, 60]), "train_steps":
                rng.choice([15, 40]),
            "test_time": rng.choice([2.0, 6.0]),
            "train_time": rng.choice([1.0, 5.0]), "fault": fault,
            "use_state_dims": -1, "gamma": 0.1}


def directed(tier: str) -> list:
    base = {"sd": 2, "cd": 1, "A": [[-0.5, 0.2], [0.0, -1.0]],
            "B": [[1.0], [0.5]], "K": [[-0.3, 0.1]], "p": 1.0,
            "legs": [{"s0": [1.0, -0.5], "test": True},
                     {"s0": [0.2, 0.9], "test": False}],
            "test_steps": 50, "train_steps": 20, "test_time": 5.0,
            "train_time": 3.0, "use_state_dims": -1, "gamma": 0.1}
    docs = [{**base, "fault": {"kind": "none"}}]

    def f(kind, target, t1, t2, bad, r=2.0, strict=False, k=0):
        return {"kind": kind, "target": target, "t1": fhex(t1),
                "t2": fhex(t2), "strict": strict, "r": fhex(r), "k": k,
                "bad": bad}
    docs.append({**base, "fault": f("always", "ctrl", 0, 0, "1e50")})
    docs.append({**base, "fault": f("after", "ctrl", 2.0, 2.0, "nan")})
    docs.append({**base, "fault": f("after", "plant", 1.5, 1.5, "inf")})
    docs.append({**base, "fault": f("window", "ctrl", 1.0, 1.001, "-inf")})
    docs.append({**base, "fault": f("window", "ctrl", 1.0, 2.0, "1e10")})
    docs.append({**base, "fault": f("window", "plant", 0.5, 0.6, "-1e10")})
    docs.append({**base, "fault": f("at_zero", "ctrl", 0, 0, "-1e11")})
    docs.append({**base, "A": [[1.5, 0.0], [0.0, 1.2]],
                 "test_time": 50.0, "train_time": 50.0,
                 "fault": {"kind": "none"}})
    docs.append({**base, "A": [[1.0, 0.0], [0.0, 0.5]],
                 "fault": f("state", "ctrl", 0, 0, "nan", r=2.0)})
    docs.append({**base, "fault": f("always", "plant", 0, 0, "nan")})
    docs.append({"bundled": {"system": "stuart_landau", "controller": "linear",
                             "params_seed": 1, "scale": 1.0},
                 "legs": [{"which": 0, "test": True},
                          {"which": 1, "test": False}],
                 "test_steps": 30, "train_steps": 20, "test_time": 3.0,
                 "train_time": 2.0,
                 "fault": f("after", "ctrl", 1.0, 1.0, "nan"),
                 "use_state_dims": -1, "gamma": 0.1})
    return docs


# ------------------------------------------------------------------ execution

def _cond(fault: dict):
    kind = fault["kind"]
    if kind == "none":
        return None
    t1, t2, r = unhex(fault["t1"]), unhex(fault["t2"]), unhex(fault["r"])
    k = int(fault["k"])
    strict = bool(fault.get("strict"))
    if kind == "always":
        return lambda t, s: True
    if kind == "after":
        return (lambda t, s: t > t1) if strict else (lambda t, s: t >= t1)
    if kind == "window":
        return lambda t, s: t1 <= t <= t2
    if kind == "at_zero":
        return lambda t, s: t == 0.0
    if kind == "at_end":
        return lambda t, s: t >= t1
    if kind == "state":
        return lambda t, s: abs(s[k % len(s)]) > r
    raise ValueError(kind)


def _bundled_parts(b: dict):
    import importlib

    import numpy as np
    sysmod = importlib.import_module(
        f"moptipyapps.dynamic_control.systems.{b['system']}")
    system = {"stuart_landau": "STUART_LANDAU_4", "lorenz": "LORENZ_4",
              "three_coupled_oscillators": "THREE_COUPLED_OSCILLATORS"}
    sysobj = getattr(sysmod, system[b["system"]])
    cmod = importlib.import_module(
        "moptipyapps.dynamic_control.controllers." + {
            "anns": "ann", "min_anns": "min_ann"}.get(
            b["controller"], b["controller"]))
    ctrl = getattr(cmod, b["controller"])(sysobj)
    if not hasattr(ctrl, "parameter_space"):   # a family of controllers
        ctrl = list(ctrl)
        ctrl = ctrl[int(b["params_seed"]) % len(ctrl)]
    space = ctrl.parameter_space()
    rnd = random.Random(b["params_seed"])
    params = np.array([rnd.uniform(-1.0, 1.0) * float(b["scale"])
                       for _ in range(space.dimension)])
    return sysobj, ctrl, params


def _execute_threads(doc: dict) -> dict:
    """Each thread's simulation, figure of merit and differentials must be
    what they are when the thread runs alone."""
    import warnings

    import numpy as np
    warnings.simplefilter("ignore")
    import io
    from moptipyapps.dynamic_control.ode import (diff_from_ode, j_from_ode,
                                                 run_ode, t_from_ode)
    from moptipyapps.dynamic_control.results_log import ResultsLog
    res = core.new_result()
    sd, cd = int(doc["sd"]), int(doc["cd"])
    Al, Bl, Kl = doc["A"], doc["B"], doc["K"]
    prm, tq = float(doc["p"]), float(doc.get("tq", 0.0))
    gamma, use = float(doc["gamma"]), int(doc["use_state_dims"])
    pre = core.Preempt((os.sep + "moptipyapps" + os.sep, ))

    def body_for(leg):
        def ctrl(state, t, p, out):
            for i in range(cd):
                acc = 0.0
                for j in range(sd):
                    acc += Kl[i][j] * float(state[j])
                out[i] = p * acc + tq * t

        def eq(state, t, c, out):
            for i in range(sd):
                acc = 0.0
                for j in range(sd):
                    acc += Al[i][j] * float(state[j])
                for j in range(cd):
                    acc += Bl[i][j] * float(c[j])
                out[i] = acc
        steps = int(doc["test_steps"] if leg["test"] else doc["train_steps"])
        tlim = float(doc["test_time"] if leg["test"] else doc["train_time"])
        s0 = np.array(leg["s0"], dtype=float).astype(
            leg.get("dtype", "float64"))

        def body():
            ode = run_ode(s0, eq, ctrl, prm, cd, steps, tlim)
            j = j_from_ode(ode, sd, use, gamma)
            t = t_from_ode(ode)
            d = diff_from_ode(ode, sd)
            sio = io.StringIO()
            with ResultsLog(sd, sio) as log:   # a table of its own
                log.collector(0, ode, j, t)
                log.collector(1, ode, j, t)
                text = sio.getvalue()
            return (np.array(ode), float(j), float(t),
                    np.array(d[0]), np.array(d[1]), text)
        return body
    legs = doc["legs"][:2]
    alone, points = [], []
    for leg, picks in zip(legs, doc["threads"]["picks"]):
        out, table = pre.profile(body_for(leg))
        alone.append(out)
        points.append(core.Preempt.pick_points(table, picks))
        res["ops"] += 1
    got, switches = pre.run([body_for(leg) for leg in legs], points)
    core.bump(res["faults"], "caller_threads_interleaved")
    if switches >= 2:
        core.bump(res["probes"], "thread_switches>=2")
    res["events"].append(["threads", switches, [
        core.digest([fhex(v) for v in a[0].ravel()])[:16] for a in alone]])

    def same(a, b) -> bool:
        if isinstance(a, str):
            return a == b
        if isinstance(a, float):
            return a == b or (a != a and b != b)
        return a.shape == b.shape and bool(np.array_equal(a, b,
                                                          equal_nan=True))
    for i, (a, g) in enumerate(zip(alone, got)):
        if isinstance(g, BaseException):
            core.violation(res, "run_ode-raised",
                           f"thread {i}: {type(g).__name__}: {g}")
            break
        bad = [nm for nm, u, v in zip(("rows", "J", "T", "state+control",
                                        "differentials", "results table"),
                                       a, g)
               if not same(u, v)]
        if bad:
            core.violation(
                res, "concurrent-simulation-differs-from-sequential",
                f"thread {i}: {bad} differ from what the same simulation "
                f"gives alone ({switches} switches to the other thread); "
                f"J alone {a[1]!r}, together {g[1]!r}")
            break
    res["sim_time"] = float(sum(float(a[2]) for a in alone))
    res["nontrivial"] = switches >= 1
    return res


def execute(doc: dict) -> dict:
    if doc.get("threads"):
        return _execute_threads(doc)
    import warnings

    import numpy as np
    warnings.simplefilter("ignore")   # scipy RuntimeWarnings on NaN/inf steps
    from moptipyapps.dynamic_control.ode import (diff_from_ode, j_from_ode,
                                                 multi_run_ode, run_ode,
                                                 t_from_ode)
    res = core.new_result()
    fault = doc["fault"]
    cond = _cond(fault)
    target = fault.get("target")
    bad = BAD[fault["bad"]] if cond is not None else None
    kidx = int(fault.get("k", 0))
    calls = {"ctrl": 0, "eq": 0, "fired": 0}
    call_cap = CALL_CAP_BUNDLED if "bundled" in doc else CALL_CAP
    gamma = float(doc["gamma"])
    use = int(doc["use_state_dims"])

    if "bundled" in doc:
        sysobj, cobj, params = _bundled_parts(doc["bundled"])
        sd, cd = int(sysobj.state_dims), int(sysobj.control_dims)
        base_ctrl, base_eq = cobj.controller, sysobj.equations
        starts_all = list(sysobj.test_starting_states) \
            + list(sysobj.training_starting_states)
        legs = [{"s0": [float(v) for v in starts_all[
            leg["which"] % len(starts_all)]], "test": leg["test"]}
            for leg in doc["legs"]]
        core.bump(res["probes"], "bundled_system")
        closed = None
    else:
        sd, cd = int(doc["sd"]), int(doc["cd"])
        A = np.array(doc["A"], dtype=float)
        B = np.array(doc["B"], dtype=float)
        K = np.array(doc["K"], dtype=float)
        params = float(doc["p"])
        legs = doc["legs"]

        Al, Bl, Kl = A.tolist(), B.tolist(), K.tolist()

        # plain loops in a fixed order: the result must not depend on the
        # memory layout of the arrays run_ode happens to pass (BLAS would)
        tq = float(doc.get("tq", 0.0))

        def base_ctrl(state, t, prm, out):
            for i in range(cd):
                acc = 0.0
                row = Kl[i]
                for j in range(sd):
                    acc += row[j] * float(state[j])
                out[i] = prm * acc + tq * t

        def base_eq(state, t, ctrl, out):
            for i in range(sd):
                acc = 0.0
                ra, rb = Al[i], Bl[i]
                for j in range(sd):
                    acc += ra[j] * float(state[j])
                for j in range(cd):
                    acc += rb[j] * float(ctrl[j])
                out[i] = acc
        closed = A + params * (B @ K) if tq == 0.0 else None

    def pure_controller(state, t, prm, out):
        base_ctrl(state, t, prm, out)
        if cond is not None and target == "ctrl" and cond(t, state):
            out[kidx % cd] = bad

    def controller(state, t, prm, out):
        calls["ctrl"] += 1
        if calls["ctrl"] + calls["eq"] > call_cap:
            raise _TooManyCalls
        base_ctrl(state, t, prm, out)
        if cond is not None and target == "ctrl" and cond(t, state):
            out[kidx % cd] = bad
            calls["fired"] += 1

    def equations(state, t, ctrl, out):
        calls["eq"] += 1
        if calls["ctrl"] + calls["eq"] > call_cap:
            raise _TooManyCalls
        base_eq(state, t, ctrl, out)
        if cond is not None and target == "plant" and cond(t, state):
            out[kidx % sd] = bad
            calls["fired"] += 1

    def start_of(leg):
        dt = leg.get("dtype", "float64")
        if dt != "float64":
            core.bump(res["probes"], "start_state_dtype:" + dt)
        return np.array(leg["s0"], dtype=float).astype(dt)
    test_starts = [start_of(leg) for leg in legs if leg["test"]]
    train_starts = [start_of(leg) for leg in legs if not leg["test"]]
    if len(legs) > 1:
        core.bump(res["probes"], "multi_leg")
    collected = []
    second = []

    def collector(index, ode, j, t):
        collected.append((index, ode, j, t))

    def collector2(index, ode, j, t):
        second.append((index, id(ode), j, t, len(collected)))
    # multi_run_ode takes one collector or several; with several, each must
    # receive every result, in order, right after the first one got it
    many = (len(doc["legs"]) + int(doc["test_steps"])) % 2 == 1

    tsteps, rsteps = int(doc["test_steps"]), int(doc["train_steps"])
    ttime, rtime = float(doc["test_time"]), float(doc["train_time"])
    def hand_over(starts):
        how = doc.get("starts_as", "list")
        if how == "generator_reused_buffer" and starts:
            # an iterable that yields one buffer over and over (the
            # parameter is documented as an Iterable of arrays)
            core.bump(res["probes"], "starts_from_reused_buffer")

            def gen():
                buf = np.empty(len(starts[0]), dtype=float)
                for st in starts:
                    buf[:] = st
                    yield buf
            return gen()
        if how == "tuple":
            return tuple(starts)
        return starts
    try:
        multi_run_ode(hand_over(test_starts), hand_over(train_starts),
                      (collector, collector2) if many else collector,
                      equations, controller, params, cd, tsteps, ttime,
                      rsteps, rtime, use, gamma)
    except _TooManyCalls:
        if "bundled" in doc:
            # nonlinear bundled systems can be legally stiff: undecided
            core.bump(res["probes"], "undecided:bundled_call_cap")
            res["events"].append(["undecided", "call-cap"])
            return res
        core.violation(res, "no-termination:call-cap",
                       f"more than {call_cap} controller/plant calls "
                       f"(fault={fault})")
        return res
    except Exception as exc:  # noqa: BLE001
        core.violation(res, "run_ode-raised",
                       f"{type(exc).__name__}: {exc} (fault={fault})")
        return res
    if many:
        core.bump(res["probes"], "several_collectors")
        if [(q[0], q[1], q[2], q[3], q[4]) for q in second] != [
                (c[0], id(c[1]), c[2], c[3], k + 1)
                for k, c in enumerate(collected)]:
            core.violation(res, "collector-order",
                           f"second collector saw {len(second)} results "
                           f"(first: {len(collected)}) or in another order / "
                           f"with other values")
            return res
    expected = [(s, tsteps, ttime) for s in test_starts] \
        + [(s, rsteps, rtime) for s in train_starts]
    if [c[0] for c in collected] != list(range(len(expected))):
        core.violation(res, "collector-order",
                       f"collector indices {[c[0] for c in collected]} for "
                       f"{len(expected)} starting states")
        return res
    t1 = unhex(fault["t1"]) if cond is not None else math.inf
    if cond is not None and fault["kind"] in ("always", "at_zero"):
        t1 = 0.0
    for (index, ode, j_got, t_got), (s0, steps, tlim) in zip(collected,
                                                           expected):
        res["ops"] += 1
        ode = np.asarray(ode)
        dim = sd + cd + 1
        where = f"leg {index} (steps={steps}, limit={tlim}, fault={fault})"
        if ode.ndim != 2 or ode.shape[1] != dim \
                or ode.shape[0] not in (1, steps):
            core.violation(res, "row-count",
                           f"{where}: result shape {ode.shape}, expected "
                           f"({steps}|1, {dim})")
            break
        if any(not abs(float(v)) < 1e10 for v in s0):
            core.bump(res["faults"], "start_state_out_of_bounds")
            if ode.shape[0] != 1:
                core.violation(
                    res, "value-out-of-bounds",
                    f"{where}: the starting state {list(s0)} is outside "
                    f"+-1e10 but {ode.shape[0]} rows were returned")
                break
        if ode.shape[0] == 1 and steps != 1:
            outcome = "failure"
            if closed is not None and cond is None and float(np.max(
                    np.linalg.eigvals(closed).real)) < -1e-9:
                core.violation(
                    res, "well-behaved-system-not-simulated",
                    f"{where}: failure row for a fault-free, strictly stable "
                    f"linear closed loop {closed.tolist()} from {list(s0)}")
                break
            want = list(s0) + [1e100] * cd + [0.0]
            if [float(v) for v in ode[0]] != [float(v) for v in want]:
                core.violation(res, "failure-row",
                               f"{where}: single row {ode[0].tolist()} is "
                               f"not the documented failure row {want}")
                break
        else:
            t = ode[:, -1]
            if t[0] != 0.0 or not np.all(np.diff(t) > 0.0):
                core.violation(res, "time-not-increasing-from-zero",
                               f"{where}: times start at {t[0]}, diffs min "
                               f"{np.diff(t).min()}")
                break
            if not t[-1] <= tlim:
                core.violation(res, "time-limit-exceeded",
                               f"{where}: t[-1]={t[-1]!r} > limit {tlim}")
                break
            if [float(v) for v in ode[0, :sd]] != [float(v) for v in s0]:
                core.violation(res, "first-row-not-start-state",
                               f"{where}: first row {ode[0].tolist()} vs "
                               f"start {list(s0)}")
                break
            if not np.all(np.isfinite(ode)) \
                    or not np.all(np.abs(ode) < 1e10):
                r_, c_ = np.argwhere(~(np.abs(ode) < 1e10))[0]
                core.violation(res, "value-out-of-bounds",
                               f"{where}: entry [{r_},{c_}]={ode[r_, c_]!r} "
                               f"is not finite within +-1e10")
                break
            tmp = np.empty(cd)
            bad_row = None
            for r_ in range(ode.shape[0]):
                pure_controller(ode[r_, :sd].copy(), float(ode[r_, -1]),
                                params, tmp)
                if not np.array_equal(tmp, ode[r_, sd:-1], equal_nan=True):
                    bad_row = r_
                    break
            if bad_row is not None:
                core.violation(
                    res, "control-not-controller-output",
                    f"{where}: row {bad_row} holds control "
                    f"{ode[bad_row, sd:-1].tolist()} but the controller "
                    f"returns {tmp.tolist()} for that state and time "
                    f"{ode[bad_row, -1]!r}")
                break
            outcome = "full" if t[-1] == tlim else "shortened"
            if outcome == "shortened" and t[-1] < t1 < math.inf:
                core.bump(res["probes"], "shortened_before_fault_time")
            res["sim_time"] += float(t[-1])
            # closed form (fault-free linear plant)
            if closed is not None and cond is None:
                worst = 0.0
                scale = 1.0
                for r_ in range(ode.shape[0]):
                    ref = orc.expm(closed * float(t[r_])) @ s0
                    scale = max(scale, float(np.max(np.abs(ref))))
                    worst = max(worst, float(np.max(np.abs(
                        ref - ode[r_, :sd]))) / scale)
                core.bump(res["probes"], "closed_form_checked")
                res["events"].append(["closed", index, round(worst, 6)])
                growth = max(0.0, float(np.max(np.linalg.eigvals(
                    closed).real))) * float(t[-1])
                tol = next(v for lim, v in CLOSED_FORM_TOL if growth < lim)
                if worst > tol:
                    core.violation(
                        res, "differs-from-analytic-solution",
                        f"{where}: relative deviation {worst:.4g} from "
                        f"expm((A+pBK)t)s0 exceeds {tol} (growth class "
                        f"{growth:.3g})")
                    break
            # differentials
            sc, df = diff_from_ode(ode, sd)
            rsc, rdf = orc.diff_reference(ode, sd)
            if sc.shape != rsc.shape or df.shape != rdf.shape \
                    or not np.array_equal(sc, rsc) \
                    or not np.allclose(df, rdf, rtol=1e-12, atol=0.0,
                                       equal_nan=True):
                core.violation(res, "differentials-wrong",
                               f"{where}: diff_from_ode disagrees with "
                               f"forward differences")
                break
            # the same formulas on a non-uniform sub-grid of the trajectory
            if ode.shape[0] >= 4:
                rnd = random.Random(ode.shape[0] * 7919 + index)
                keep = [0] + sorted(rnd.sample(range(1, ode.shape[0] - 1),
                                               rnd.randint(1, min(
                                                   6, ode.shape[0] - 2)))) \
                    + [ode.shape[0] - 1]
                sub = np.ascontiguousarray(ode[keep])
                js, jr = j_from_ode(sub, sd, use, gamma), orc.j_reference(
                    sub, sd, use, gamma)
                if not orc.rel_close(float(js), jr, 1e-9):
                    core.violation(res, "figure-of-merit-wrong",
                                   f"{where}: on the sub-grid rows {keep} "
                                   f"J={js!r}, documented formula {jr!r}")
                    break
                sc2, df2 = diff_from_ode(sub, sd)
                rsc2, rdf2 = orc.diff_reference(sub, sd)
                if sc2.shape != rsc2.shape or df2.shape != rdf2.shape \
                        or not np.array_equal(sc2, rsc2) \
                        or not np.allclose(df2, rdf2, rtol=1e-12, atol=0.0):
                    core.violation(res, "differentials-wrong",
                                   f"{where}: on the sub-grid rows {keep} "
                                   f"diff_from_ode disagrees with forward "
                                   f"differences")
                    break
        core.bump(res["probes"], f"outcome:{outcome}")
        # J and T
        j_ref = orc.j_reference(ode, sd, use, gamma)
        j_again = j_from_ode(ode, sd, use, gamma)
        t_again = t_from_ode(ode)
        if not (orc.rel_close(float(j_got), j_ref, 1e-9)
                and orc.rel_close(float(j_again), j_ref, 1e-9)):
            core.violation(res, "figure-of-merit-wrong",
                           f"{where}: J={j_got!r} (again {j_again!r}) but the "
                           f"documented formula gives {j_ref!r}")
            break
        if not float(j_got) >= 0.0:
            core.violation(res, "figure-of-merit-negative",
                           f"{where}: J={j_got!r}")
            break
        if float(t_got) != float(ode[-1, -1]) or float(t_again) != float(
                ode[-1, -1]):
            core.violation(res, "simulated-time-wrong",
                           f"{where}: T={t_got!r} vs t[-1]={ode[-1, -1]!r}")
            break
        res["events"].append(["leg", index, outcome, ode.shape[0],
                              core.digest([fhex(v) for v in ode.ravel()])[:16],
                              fhex(float(j_got))])
        res["states"].append(
            f"{fault['kind']}|{target}|{fault.get('bad')}|{outcome}|{sd}|{cd}")
    if "describe" in doc and res["violation"] is None:
        _describe(doc, res, sd, cd, controller, equations, params,
                  test_starts, train_starts, collected, calls, call_cap)
    res["events"].append(["calls", calls["ctrl"], calls["eq"], calls["fired"]])
    if cond is not None:
        if calls["fired"] > 0:
            core.bump(res["faults"], f"{target}:{fault['kind']}")
            core.bump(res["probes"], f"bad:{fault['bad']}")
            if fault["kind"] == "at_zero" or (
                    fault["kind"] == "always" and target == "ctrl"):
                core.bump(res["probes"], "first_row_controller_bad")
        if fault["kind"] == "window":
            width = unhex(fault["t2"]) - unhex(fault["t1"])
            grid = min(ttime / max(1, tsteps - 1), rtime / max(1, rsteps - 1))
            if width < grid:
                core.bump(res["probes"], "window_narrower_than_grid")
    outcomes = [e[2] for e in res["events"] if e[0] == "leg"]
    if cond is None and any(o != "full" for o in outcomes):
        core.bump(res["faults"], "plant:diverges_by_itself")
    res["nontrivial"] = calls["fired"] > 0 or any(
        o != "full" for o in outcomes)
    return res


class _TooManyCalls(Exception):
    pass


def _describe(doc, res, sd, cd, controller, equations, params, test_starts,
              train_starts, collected, calls, call_cap) -> None:
    """System.describe_system must write, per starting state, the figure of
    merit, time, row count, first and last state of the same simulations that
    multi_run_ode just delivered (and that were judged above)."""
    import io
    import shutil
    from contextlib import redirect_stdout

    import numpy as np
    from moptipyapps.dynamic_control.system import System
    d = doc["describe"]
    mod, in_j = int(d["mod"]), int(d["in_j"])
    if sd % mod != 0 or not test_starts or not train_starts or in_j > sd \
            or int(doc["use_state_dims"]) != in_j:
        return    # a shrunk document that no longer describes a System
    name = "d" + core.digest(doc)[:10]
    dest = os.path.join(core.WORK, "tmp", f"{name}-{os.getpid()}")
    try:
        system = System(name, sd, cd, mod, in_j, float(doc["gamma"]),
                        np.array(test_starts), np.array(train_starts),
                        int(doc["test_steps"]), float(doc["test_time"]),
                        int(doc["train_steps"]), float(doc["train_time"]),
                        (0, ))
        system.equations = equations
        calls["ctrl"] = calls["eq"] = 0
        with redirect_stdout(io.StringIO()):
            files = system.describe_system(None, controller, params, "r",
                                           dest)
        with open(files[1], encoding="utf-8") as fh:
            lines = [ln for ln in fh.read().splitlines() if ln.strip()]
    except _TooManyCalls:
        core.violation(res, "no-termination:call-cap",
                       f"describe_system: more than {call_cap} calls")
        return
    except Exception as exc:  # noqa: BLE001
        core.violation(res, "describe_system-raised",
                       f"{type(exc).__name__}: {exc}")
        return
    finally:
        shutil.rmtree(dest, ignore_errors=True)
    core.bump(res["probes"], "described_system")
    if in_j != mod:
        core.bump(res["probes"], "described:in_j!=plot_modulus")
    want_head = ["figureOfMerit", "totalTime", "nSteps"] + [
        f"start{i}" for i in range(sd)] + [f"end{i}" for i in range(sd)]
    if not lines or lines[0].split(";") != want_head \
            or len(lines) != 1 + len(collected):
        core.violation(res, "results-table-shape",
                       f"{len(lines)} lines for {len(collected)} simulations "
                       f"or header {lines[:1]}")
        return

    def same(a: float, b: float) -> bool:
        return a == b or (a != a and b != b)
    for line, (index, ode, j, t) in zip(lines[1:], collected):
        got = [float(v) for v in line.split(";")]
        ode = np.asarray(ode)
        want = [float(j), float(t), float(len(ode))] + [
            float(v) for v in ode[0][:sd]] + [float(v) for v in ode[-1][:sd]]
        if len(got) != len(want) or not all(
                same(a, b) for a, b in zip(got, want)):
            core.violation(
                res, "results-table-differs-from-simulation",
                f"describe_system row {index}: table holds {got[:3]}..., the "
                f"simulation of that starting state gives J={j!r} (state "
                f"dimensions in J: {in_j}) T={t!r} rows={len(ode)}")
            return
    res["events"].append(["described", len(lines) - 1])
    if not d.get("redescribe"):
        return
    # the equations of a System are an attribute that is assigned after
    # construction (the bundled systems do so, the surrogate optimizer
    # replaces them on copies): a later report must simulate the current ones
    from moptipyapps.dynamic_control.ode import multi_run_ode

    def eq2(state, t, ctrl, out):
        equations(state, t, ctrl, out)
        for i in range(sd):
            out[i] = 0.5 * out[i] - 0.25 * float(state[i])
    want: list = []
    try:
        multi_run_ode(test_starts, train_starts,
                      lambda i, o, j, t: want.append((i, np.array(o), j, t)),
                      eq2, controller, params, cd, int(doc["test_steps"]),
                      float(doc["test_time"]), int(doc["train_steps"]),
                      float(doc["train_time"]), in_j, float(doc["gamma"]))
        system.equations = eq2
        with redirect_stdout(io.StringIO()):
            files = system.describe_system(None, controller, params, "r2",
                                           dest + "b")
        with open(files[1], encoding="utf-8") as fh:
            lines2 = [ln for ln in fh.read().splitlines() if ln.strip()]
    except _TooManyCalls:
        return      # (the call budget of the scenario is used up: undecided)
    except Exception as exc:  # noqa: BLE001
        core.violation(res, "describe_system-raised",
                       f"second report: {type(exc).__name__}: {exc}")
        return
    finally:
        shutil.rmtree(dest + "b", ignore_errors=True)
    core.bump(res["probes"], "described_again_after_new_equations")
    rows2 = [[float(v) for v in ln.split(";")] for ln in lines2[1:]]
    exp2 = [[float(j), float(t), float(len(o))] + [
        float(v) for v in o[0][:sd]] + [float(v) for v in o[-1][:sd]]
        for (_, o, j, t) in want]
    if len(rows2) != len(exp2) or any(
            len(a) != len(b) or not all(same(u, v) for u, v in zip(a, b))
            for a, b in zip(rows2, exp2)):
        core.violation(
            res, "results-table-differs-from-simulation",
            f"describe_system after the system's equations were replaced: "
            f"the table holds {[r[:3] for r in rows2][:3]}, simulating the "
            f"current equations gives {[r[:3] for r in exp2][:3]}")


# ------------------------------------------------------------------ shrinking

def reductions(doc: dict):
    if doc.get("threads"):
        pk = doc["threads"]["picks"]
        for i in range(len(pk)):
            for cand in core.list_deletions(pk[i], 0):
                p2 = [list(q) for q in pk]
                p2[i] = cand
                yield {**doc, "threads": {"picks": p2}}
        return
    if len(doc["legs"]) > 1:
        for cand in core.list_deletions(doc["legs"], 1):
            yield {**doc, "legs": cand}
    for key in ("test_steps", "train_steps"):
        for v in (10, 20, 50):
            if v < doc[key]:
                yield {**doc, key: v}
    for key in ("test_time", "train_time"):
        for v in (0.5, 1.0, 5.0):
            if v < doc[key]:
                yield {**doc, key: v}
    if doc["fault"]["kind"] != "none":
        yield {**doc, "fault": {"kind": "none"}}
        f = doc["fault"]
        if f["bad"] != "nan":
            yield {**doc, "fault": {**f, "bad": "nan"}}
        if f["kind"] not in ("always",):
            yield {**doc, "fault": {**f, "kind": "always"}}
    if "bundled" in doc:
        b = doc["bundled"]
        if b["scale"] != 0.0:
            yield {**doc, "bundled": {**b, "scale": 0.0}}
        return
    sd, cd = doc["sd"], doc["cd"]
    if doc["p"] != 0.0:
        yield {**doc, "p": 0.0}
    if sd > 1:
        k = sd - 1
        yield {**doc, "sd": k, "A": [r[:k] for r in doc["A"][:k]],
               "B": doc["B"][:k], "K": [r[:k] for r in doc["K"]],
               "legs": [{**leg, "s0": leg["s0"][:k]} for leg in doc["legs"]],
               "use_state_dims": -1}
    if cd > 1:
        yield {**doc, "cd": 1, "B": [r[:1] for r in doc["B"]],
               "K": doc["K"][:1]}
    for name in ("A", "B", "K"):
        m = doc[name]
        for i in range(len(m)):
            for j in range(len(m[i])):
                if m[i][j] not in (0.0, 1.0, -1.0):
                    m2 = [list(r) for r in m]
                    m2[i][j] = float(round(m[i][j]))
                    yield {**doc, name: m2}
    for li, leg in enumerate(doc["legs"]):
        for k, v in enumerate(leg["s0"]):
            if v not in (0.0, 1.0, -1.0):
                legs = [dict(q) for q in doc["legs"]]
                s0 = list(leg["s0"])
                s0[k] = 1.0 if v > 0 else -1.0
                legs[li]["s0"] = s0
                yield {**doc, "legs": legs}
