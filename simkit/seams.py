"""Simulator-owned seams for runs under moptipy: clock, timer, runner RNG, directory
listing order, log writes and crash points. Installed inside boot processes only."""
from __future__ import annotations

import io
import os
import random


class Crash:
    """Counted crash points; os._exit(137) models a killed process."""

    def __init__(self, spec: dict | None) -> None:
        self.kind = (spec or {}).get("at")
        self.count = int((spec or {}).get("count", 0))
        self.clock_reads = 0
        self.bytes_written = 0

    def on_clock_read(self) -> None:
        self.clock_reads += 1
        if self.kind == "clock_read" and self.clock_reads >= self.count:
            os._exit(137)


class SimClock:
    """Monotone simulated nanosecond clock advanced by reads only."""

    def __init__(self, spec: dict, crash: Crash) -> None:
        self.mode = spec.get("mode", "fixed")
        self.tick = int(spec.get("tick", 1_000_000))
        self.rnd = random.Random(int(spec.get("seed", 0)))
        self.jumps = {int(k): int(v) for k, v in
                      (spec.get("jumps") or {}).items()}
        self.now = int(spec.get("start", 1_700_000_000_000_000_000))
        self.start = self.now
        self.reads = 0
        self.crash = crash

    def __call__(self) -> int:
        self.reads += 1
        if self.mode == "random":
            self.now += self.rnd.randint(1, max(1, self.tick))
        else:
            self.now += self.tick
        if self.reads in self.jumps:
            self.now += self.jumps[self.reads]       # a stalled node: hours
        self.crash.on_clock_read()
        # time budgets live on this clock as well: fire expired timers
        if SimTimer.pending:
            due = [t for t in SimTimer.pending if t.deadline <= self.now]
            for t in due:
                t.fire()
        return self.now

    def advanced(self) -> int:
        return self.now - self.start


class SimTimer:
    """Stands in for threading.Timer on the simulated clock.

    A timer fires (synchronously, at the next clock read) once the simulated
    time has passed its deadline - e.g. after a forward jump of hours. No real
    thread is ever started."""

    pending: list = []
    clock = None

    def __init__(self, interval=None, function=None, args=None, kwargs=None):
        self.interval = float(interval or 0.0)
        self.function = function
        self.args = args or ()
        self.kwargs = kwargs or {}
        self.deadline = None
        self.fired = 0

    def start(self) -> None:
        now = SimTimer.clock.now if SimTimer.clock is not None else 0
        self.deadline = now + int(self.interval * 1_000_000_000)
        SimTimer.pending.append(self)

    def cancel(self) -> None:
        if self in SimTimer.pending:
            SimTimer.pending.remove(self)

    def fire(self) -> None:
        self.cancel()
        self.fired += 1
        if self.function is not None:
            self.function(*self.args, **self.kwargs)


class _CountingFile(io.TextIOBase):
    """A text stream that dies after a byte budget (torn write)."""

    def __init__(self, fh, crash: Crash) -> None:
        super().__init__()
        self._fh = fh
        self._crash = crash

    def writable(self) -> bool:
        return True

    def flush(self) -> None:
        if not self._fh.closed:
            self._fh.flush()

    def close(self) -> None:
        if not self._fh.closed:
            self._fh.close()
        super().close()

    def write(self, s):
        c = self._crash
        if c.kind == "log_bytes":
            room = c.count - c.bytes_written
            if len(s) >= room:
                self._fh.write(s[:max(0, room)])
                self._fh.flush()
                os.fsync(self._fh.fileno())
                os._exit(137)
        c.bytes_written += len(s)
        return self._fh.write(s)



def install(clock_spec: dict, crash_spec: dict | None, shuffle_seed: int):
    """Patch moptipy / pycommons module attributes; returns (clock, crash)."""
    import importlib
    import builtins

    import numpy.random as npr
    crash = Crash(crash_spec)
    clock = SimClock(clock_spec, crash)
    base = importlib.import_module("moptipy.api._process_base")
    SimTimer.clock = clock
    SimTimer.pending = []
    base.Timer = SimTimer
    for name in ("_process_base", "_process_no_ss", "_process_no_ss_log",
                 "_process_ss", "_process_ss_log", "_mo_process_no_ss",
                 "_mo_process_no_ss_log", "_mo_process_ss",
                 "_mo_process_ss_log"):
        mod = importlib.import_module(f"moptipy.api.{name}")
        if hasattr(mod, "_TIME_IN_NS"):
            mod._TIME_IN_NS = clock
    exp = importlib.import_module("moptipy.api.experiment")
    state = {"n": 0}

    def seeded_default_rng(*args, **kwargs):
        if args or kwargs:
            return npr.default_rng(*args, **kwargs)
        state["n"] += 1
        return npr.default_rng([int(shuffle_seed), state["n"]])
    exp.default_rng = seeded_default_rng
    pio = importlib.import_module("pycommons.io.path")

    def counting_open(file, mode="r", *args, **kwargs):
        fh = builtins.open(file, mode, *args, **kwargs)
        if "w" in mode and crash.kind == "log_bytes":
            return _CountingFile(fh, crash)
        return fh
    pio.open = counting_open
    return clock, crash


def install_listing_order(seed: int) -> None:
    """Directory listings come back in a seeded permutation."""
    import importlib
    from os import scandir as real_scandir
    pio = importlib.import_module("pycommons.io.path")
    rnd = random.Random(int(seed))

    def shuffled_scandir(path):
        entries = sorted(real_scandir(path), key=lambda e: e.name)
        rnd.shuffle(entries)
        return iter(entries)
    pio.scandir = shuffled_scandir
