"""The check driver: generate -> execute in the pool -> self-tests -> shrink -> report."""
from __future__ import annotations

import importlib
import json
import math
import os
import subprocess
import sys
import time
from typing import Any

from simkit import core


def _jsonable(o: Any) -> Any:
    if isinstance(o, float):
        if math.isfinite(o):
            return o
        return "nan" if o != o else ("inf" if o > 0 else "-inf")
    if isinstance(o, dict):
        return {str(k): _jsonable(v) for k, v in o.items()}
    if isinstance(o, (list, tuple)):
        return [_jsonable(v) for v in o]
    if hasattr(o, "item") and not isinstance(o, (str, bytes)):
        return _jsonable(o.item())
    return o


def load_engine(prop: str):
    return importlib.import_module(f"simkit.engines.{prop.lower()}")


def build_items(engine, tier: str, scale: float) -> tuple[list, list]:
    items = []
    batches = engine.plan(tier)
    for i, doc in enumerate(engine.directed(tier)):
        items.append((f"directed:{i}", {"name": "directed"}, i, doc, 0))
    for b in batches:
        n = max(1, int(round(b["n"] * scale)))
        for k in range(n):
            items.append((f"{b['name']}:{k}", b, k, None, 0))
    return items, batches


def _mark(items: list, keys: set, level: int) -> list:
    return [(it[0], it[1], it[2], it[3], max(it[4], level)
             if it[0] in keys else it[4]) for it in items]


def child_selftest(prop: str, tier: str, seed: int, spec_path: str) -> int:
    """Executed in a fresh interpreter: regenerate + execute the listed keys."""
    engine = load_engine(prop)
    root = core.root_seed(prop, tier, seed)
    with open(spec_path, encoding="utf-8") as f:
        spec = json.load(f)
    directed = None
    out = {}
    for key, batch, k in spec["items"]:
        if batch["name"] == "directed":
            if directed is None:
                directed = engine.directed(tier)
            doc = directed[k]
        else:
            doc = engine.generate(core.scenario_rng(root, batch["name"], k),
                                  batch)
        res = core.safe_execute(engine, doc)
        out[key] = [core.digest(doc), res["digest"],
                    res.get("harness_error")]
    with open(spec["out"], "w", encoding="utf-8") as f:
        json.dump(out, f)
    return 0


def run_single(prop: str, doc_path: str) -> int:
    """Executed in a fresh interpreter: execute one scenario document."""
    import faulthandler
    engine = load_engine(prop)
    dump = os.environ.get("VERIF_HANG_DUMP")
    if dump:
        # where is the interpreter when the scenario is about to be killed?
        fh = open(dump, "w", encoding="utf-8")  # noqa: SIM115
        faulthandler.dump_traceback_later(
            float(os.environ.get("VERIF_HANG_AFTER", "60")), file=fh)
    with open(doc_path, encoding="utf-8") as f:
        doc = json.load(f)
    res = core.safe_execute(engine, doc)
    with open(doc_path + ".out", "w", encoding="utf-8") as f:
        json.dump(_jsonable({"violation": res["violation"],
                             "digest": res["digest"],
                             "harness_error": res.get("harness_error"),
                             "events": res["events"]}), f)
    return 0


def _rerun_alone(prop: str, engine, root: bytes, item, cap: float,
                 workdir: str) -> dict:
    key, batch, k, doc, _ = item
    if doc is None:
        doc = engine.generate(core.scenario_rng(root, batch["name"], k), batch)
    path = os.path.join(workdir, f"single-{os.getpid()}-{abs(hash(key))}.json")
    with open(path, "w", encoding="utf-8") as f:
        json.dump(_jsonable(doc), f)
    dump = path + ".hang"
    env = dict(os.environ, VERIF_HANG_DUMP=dump,
               VERIF_HANG_AFTER=str(max(5.0, cap * 0.85)))
    where = ""
    try:
        p = subprocess.run([core.PYTHON, core.MAIN, "single", prop, path],
                           capture_output=True, text=True, timeout=cap,
                           env=env)
        rc = p.returncode
        err = (p.stdout + p.stderr)[-1500:]
    except subprocess.TimeoutExpired:
        rc, err = 124, "timeout"
        if os.path.exists(dump):
            with open(dump, encoding="utf-8") as f:
                frames = [ln.strip() for ln in f if ln.strip().startswith(
                    "File ")]
            if frames:
                # the dump lists all threads, innermost frame first; a frame
                # of the repository anywhere below the innermost one means
                # that repository code is looping and merely calls into a
                # stub of the simulator: that is the repository's hang
                repo_frames = [f for f in frames
                               if (os.sep + "moptipyapps" + os.sep) in f]
                where = repo_frames[0] if repo_frames else frames[0]
                err = "timeout; innermost frames: " + " <- ".join(frames[:4])
    if os.path.exists(dump):
        os.remove(dump)
    res = None
    if rc == 0 and os.path.exists(path + ".out"):
        with open(path + ".out", encoding="utf-8") as f:
            res = json.load(f)
    for q in (path, path + ".out"):
        if os.path.exists(q):
            os.remove(q)
    # a hang whose innermost Python frame is simulator code is a harness
    # problem, not a property violation
    harness_hang = rc == 124 and '"/verif/' in where.replace(
        core.VERIF, "/verif") and "/site-packages/" not in where
    return {"rc": rc, "err": err, "res": res, "doc": doc,
            "harness_hang": harness_hang}


def run_check(prop: str, tier: str) -> int:
    t_start = time.monotonic()
    seed = int(os.environ.get("VERIF_SEED", core.DEFAULT_SEED))
    scale = float(os.environ.get("VERIF_SCALE", "1"))
    workers = int(os.environ.get("VERIF_WORKERS", str(os.cpu_count() or 4)))
    engine = load_engine(prop)
    root = core.root_seed(prop, tier, seed)
    workdir = os.path.join(core.WORK, "tmp")
    os.makedirs(workdir, exist_ok=True)
    print(f"[{prop}] tier={tier} VERIF_SEED={seed} workers={workers} "
          f"scale={scale}", flush=True)

    # (the warm-up runs directed scenarios to fill the numba cache; on a tree
    # where those hang it gives up early - the pool then meets the hang)
    core.warmup_in_child(prop.lower(), timeout=min(600.0, max(
        180.0, 2 * float(getattr(engine, "HARD_CAP_S", 180.0)))))
    t_warm = time.monotonic() - t_start

    items, batches = build_items(engine, tier, scale)
    # determinism sample + written-out samples
    det_default = getattr(engine, "DET_SAMPLE", {}).get(
        tier, 24 if tier == "quick" else 200)
    n_det = int(os.environ.get("VERIF_DET_SAMPLE", str(det_default)))
    n_det = min(n_det, len(items))
    step = max(1, len(items) // max(1, n_det))
    det_keys = [items[i][0] for i in range(0, len(items), step)][:n_det]
    sample_keys = []
    seen_b = {}
    for it in items:
        b = it[1]["name"]
        if seen_b.get(b, 0) < 1:
            seen_b[b] = seen_b.get(b, 0) + 1
            sample_keys.append(it[0])
    items = _mark(items, set(sample_keys[:4]), 1)

    cap = float(getattr(engine, "HARD_CAP_S", 180.0))
    chunk = int(getattr(engine, "CHUNK", 8))
    pool = core.Pool(prop.lower(), root, workers, hard_cap=cap)
    last = [0.0]

    def progress(done, total):
        now = time.monotonic()
        if now - last[0] > 20:
            last[0] = now
            print(f"[{prop}] {done}/{total} scenarios "
                  f"({now - t_start:.0f}s)", file=sys.stderr, flush=True)
    try:
        results = pool.run(items, chunk=chunk, progress=progress)
    finally:
        pool.close()
    t_main = time.monotonic() - t_start
    aborted = results.pop("__aborted__", None)
    if aborted:
        print(f"[{prop}] batch cut short after repeated hangs/crashes: "
              f"{aborted['skipped']} scenarios not executed", flush=True)

    harness_errors = []
    lost_recovered = 0
    item_by_key = {it[0]: it for it in items}
    # scenarios that hung or killed their worker: confirm alone, fresh process
    lost_keys = sorted((k for k, r in results.items() if "lost" in r),
                       key=_key_order)
    # confirm up to three per kind alone, each in a fresh interpreter (in
    # parallel); the others of that kind inherit the verdict
    to_confirm: dict = {}
    for key in lost_keys:
        kind = results[key]["lost"]
        if len(to_confirm.setdefault(kind, [])) < 3:
            to_confirm[kind].append(key)
    alone_res: dict = {}
    if lost_keys:
        from concurrent.futures import ThreadPoolExecutor
        flat = [k for ks in to_confirm.values() for k in ks]
        with ThreadPoolExecutor(max_workers=max(1, len(flat))) as tpe:
            futs = {k: tpe.submit(_rerun_alone, prop, engine, root,
                                  results[k]["item"], cap, workdir)
                    for k in flat}
            for k, f in futs.items():
                alone_res[k] = f.result()
    for key in lost_keys:
        r = results[key]
        if key in alone_res:
            alone = alone_res[key]
        else:
            ref = alone_res[to_confirm[r["lost"]][0]]
            if ref["res"] is not None:
                # the confirmed ones recovered: re-run this one as well
                alone = _rerun_alone(prop, engine, root, r["item"], cap,
                                     workdir)
            else:
                doc0 = r["item"][3] or engine.generate(
                    core.scenario_rng(root, r["item"][1]["name"],
                                      r["item"][2]), r["item"][1])
                alone = {"rc": ref["rc"], "res": None,
                         "err": "not re-run alone (others confirmed)",
                         "doc": doc0,
                         "harness_hang": ref.get("harness_hang", False)}
        if alone["res"] is not None:
            lost_recovered += 1
            rr = alone["res"]
            results[key] = {"key": key, "digest": rr["digest"],
                            "violation": rr["violation"],
                            "harness_error": rr["harness_error"],
                            "faults": {}, "probes": {}, "states": [],
                            "nontrivial": False, "sim_time": 0.0, "ops": 0,
                            "n_events": len(rr["events"]),
                            "doc_digest": core.digest(alone["doc"]),
                            "doc": alone["doc"], "events": rr["events"],
                            "recovered_from": r["lost"]}
        elif alone.get("harness_hang"):
            results[key] = {"key": key, "digest": "", "violation": None,
                            "harness_error": "scenario hangs inside "
                            "simulator code: " + alone["err"][-600:],
                            "faults": {}, "probes": {}, "states": [],
                            "nontrivial": False, "sim_time": 0.0, "ops": 0,
                            "n_events": 0,
                            "doc_digest": core.digest(alone["doc"]),
                            "doc": alone["doc"], "events": []}
        else:
            clause = "no-termination" if alone["rc"] == 124 \
                else "interpreter-crash"
            results[key] = {"key": key, "digest": "", "violation": {
                "clause": clause,
                "detail": f"scenario {r['lost']} in the pool and again alone "
                          f"(rc={alone['rc']}): {alone['err'][-500:]}"},
                "harness_error": None, "faults": {}, "probes": {},
                "states": [], "nontrivial": False, "sim_time": 0.0, "ops": 0,
                "n_events": 0, "doc_digest": core.digest(alone["doc"]),
                "doc": alone["doc"], "events": [], "unshrinkable": True}

    for key, r in results.items():
        if r.get("harness_error"):
            harness_errors.append((key, r["harness_error"]))

    # ---------------------------------------------------------------- self-test
    selftest = {"sample": len(det_keys), "second_pool_workers": None,
                "fresh_interpreter_hashseed": None, "mismatches": []}
    if det_keys and not harness_errors \
            and os.environ.get("VERIF_SKIP_SELFTEST") != "1":
        det_items = [item_by_key[k] for k in det_keys]
        w2 = int(getattr(engine, "SECOND_POOL_WORKERS", 3))
        if w2 == workers:
            w2 += 2
        pool2 = core.Pool(prop.lower(), root, w2, hard_cap=cap)
        try:
            res2 = pool2.run(det_items, chunk=max(1, chunk // 2))
        finally:
            pool2.close()
        selftest["second_pool_workers"] = w2
        for k in det_keys:
            a, b = results[k], res2.get(k, {})
            if a.get("digest") != b.get("digest") \
                    or a.get("doc_digest") != b.get("doc_digest"):
                selftest["mismatches"].append(
                    {"key": k, "where": "second-pool",
                     "a": a.get("digest"), "b": b.get("digest")})
        spec = {"items": [[k, item_by_key[k][1], item_by_key[k][2]]
                          for k in det_keys],
                "out": os.path.join(workdir, f"selftest-{os.getpid()}.out")}
        spec_path = os.path.join(workdir, f"selftest-{os.getpid()}.json")
        with open(spec_path, "w", encoding="utf-8") as f:
            json.dump(spec, f)
        hs = str(1 + (seed % 4000))
        env = dict(os.environ)
        env["PYTHONHASHSEED"] = hs
        selftest["fresh_interpreter_hashseed"] = hs
        try:
            p = subprocess.run(
                [core.PYTHON, core.MAIN, "selftest-child", prop, tier,
                 str(seed), spec_path], env=env, capture_output=True,
                text=True, timeout=max(600.0, 4 * t_main))
            if p.returncode != 0:
                selftest["mismatches"].append(
                    {"where": "fresh-interpreter", "rc": p.returncode,
                     "err": (p.stdout + p.stderr)[-2000:]})
            else:
                with open(spec["out"], encoding="utf-8") as f:
                    res3 = json.load(f)
                for k in det_keys:
                    a = results[k]
                    dd, ed, he = res3.get(k, [None, None, None])
                    if a.get("digest") != ed or a.get("doc_digest") != dd:
                        selftest["mismatches"].append(
                            {"key": k, "where": "fresh-interpreter",
                             "a": a.get("digest"), "b": ed,
                             "doc_a": a.get("doc_digest"), "doc_b": dd,
                             "err": he})
        except subprocess.TimeoutExpired:
            selftest["mismatches"].append(
                {"where": "fresh-interpreter", "err": "timeout"})
        for q in (spec_path, spec["out"]):
            if os.path.exists(q):
                os.remove(q)

    # ---------------------------------------------------------------- violations
    known = core.load_known()
    viol_keys = sorted((k for k, r in results.items()
                        if r.get("violation")), key=_key_order)
    by_clause: dict = {}
    for k in viol_keys:
        by_clause.setdefault(results[k]["violation"]["clause"], []).append(k)
    reported = []
    known_hits = []
    iso = None
    max_reports = int(os.environ.get("VERIF_MAX_REPORTS", "6"))
    for clause in sorted(by_clause):
        keys = by_clause[clause]
        # candidates: up to 3 scenarios per clause so that a known finding
        # does not mask a different witness of the same clause
        handled_new = False
        for k in keys[:40]:
            r = results[k]
            v = r["violation"]
            if core.match_known(prop, v, known) is not None:
                known_hits.append((k, v))
                continue
            if handled_new or len(reported) >= max_reports:
                continue
            handled_new = True
            doc = r["doc"]
            if iso is None:
                iso = core.IsolatedExecutor(prop.lower(), hard_cap=cap)
            if clause == "no-termination":
                small, small_res, runs = doc, {
                    "violation": v, "digest": "", "events": []}, 0
            else:
                small, small_res, runs = core.shrink(
                    iso.execute, core.seq_reductions(engine.reductions), doc,
                    clause,
                    budget_runs=int(getattr(engine, "SHRINK_RUNS", 400)),
                    budget_s=float(getattr(engine, "SHRINK_S", 60.0)))
                if not small_res.get("violation"):
                    # Not there when the scenario runs alone: state may have
                    # leaked from the scenarios the worker executed before
                    # (a module-level cache, say). Any sequence of scenarios
                    # in one process is a legal history, so that sequence is
                    # executed in a fresh process and becomes the witness.
                    tried = 0
                    for k2 in keys[:200]:
                        hist = results[k2].get("history")
                        if not hist:
                            continue
                        tried += 1
                        if tried > 4:
                            break
                        seq_doc = {core.SEQ: list(hist) + [results[k2]["doc"]]}
                        seq_res = iso.execute(seq_doc)
                        if seq_res.get("violation") and \
                                seq_res["violation"]["clause"] == clause:
                            small, small_res, runs = core.shrink(
                                iso.execute,
                                core.seq_reductions(engine.reductions),
                                seq_doc, clause, budget_runs=60,
                                budget_s=float(getattr(
                                    engine, "SHRINK_S", 60.0)))
                            doc = seq_doc
                            break
                if not small_res.get("violation"):
                    # not reproducible in a second process: harness problem
                    harness_errors.append(
                        (k, "violation seen in worker did not reproduce in "
                            f"an isolated process: {v}"))
                    continue
            sv = small_res["violation"]
            if core.match_known(prop, sv, known) is not None \
                    and core.match_known(prop, v, known) is None:
                # shrinking drifted into a known finding: keep the original
                small, small_res, runs = doc, iso.execute(doc), 0
                sv = small_res["violation"] or v
            tag = "".join(ch if (ch.isalnum() or ch in "-_.") else "_"
                          for ch in f"{clause}-{k}")[:80]
            path = core.write_replay(prop, seed, tier, tag, _jsonable(small),
                                     _jsonable(small_res), doc, runs)
            def replays(pth, tries):
                for _ in range(tries):
                    rc_, out_ = core.replay_in_fresh_interpreter(
                        pth, timeout=min(600.0, max(180.0, 2 * cap))
                        + 2 * cap + 120)
                    if rc_ == 1 and f"clause={sv['clause']}" in out_:
                        return True, rc_, out_
                return False, rc_, out_
            ok, rc, out = replays(path, 1)
            reproducible = "yes"
            if not ok:
                # violations that come from undefined behaviour (a kernel
                # reading beyond an array) need not repeat bit for bit:
                # retry, then fall back to the unshrunk scenario
                ok, rc, out = replays(path, 2)
                if not ok:
                    orig_res = iso.execute(doc)
                    if orig_res.get("violation") and \
                            orig_res["violation"]["clause"] == clause:
                        small, small_res, runs = doc, orig_res, 0
                        sv = orig_res["violation"]
                        path = core.write_replay(
                            prop, seed, tier, tag + "-unshrunk",
                            _jsonable(small), _jsonable(small_res), doc, 0)
                        ok, rc, out = replays(path, 3)
                        if not ok:
                            # seen in the worker and twice in isolated
                            # children, but not in this replay: still a
                            # violation, flagged as not bit-reproducible
                            ok, reproducible = True, "intermittent"
                if not ok:
                    # e.g. state keyed by id(): whether an address is reused
                    # depends on the allocator's history, which a fresh
                    # interpreter does not share. Seen in the worker and
                    # (again now) in an isolated child: a violation, flagged
                    # as not bit-reproducible by the replay command.
                    again = iso.execute(small)
                    if (again.get("violation") and
                            again["violation"]["clause"] == clause) or (
                            small_res.get("violation") and
                            small_res["violation"]["clause"] == clause):
                        # (small_res: the isolated child that shrank it saw
                        # it, on top of the pool worker)
                        ok, reproducible = True, "intermittent"
                if not ok:
                    harness_errors.append(
                        (k, f"replay did not reproduce (rc={rc}): "
                            f"{out[-800:]}"))
                    continue
            reported.append({"key": k, "clause": sv["clause"],
                             "reproducible": reproducible,
                             "detail": sv["detail"], "replay": path,
                             "shrink_runs": runs,
                             "count_in_batch": len(keys)})

    if iso is not None:
        iso.close()
    # ---------------------------------------------------------------- aggregate
    faults: dict = {}
    probes: dict = {}
    states = set()
    nontrivial_docs = set()
    all_docs = set()
    sim_time = 0.0
    ops = 0
    n_events = 0
    per_batch: dict = {}
    for k, r in results.items():
        for kk, vv in r["faults"].items():
            faults[kk] = faults.get(kk, 0) + vv
        for kk, vv in r["probes"].items():
            probes[kk] = probes.get(kk, 0) + vv
        states.update(r["states"])
        all_docs.add(r["doc_digest"])
        if r["nontrivial"]:
            nontrivial_docs.add(r["doc_digest"])
        sim_time += r["sim_time"]
        ops += r["ops"]
        n_events += r["n_events"]
        b = k.split(":")[0]
        per_batch[b] = per_batch.get(b, 0) + 1
    for name in getattr(engine, "FAULT_KINDS", []):
        faults.setdefault(name, 0)
    for name in getattr(engine, "PROBES", []):
        probes.setdefault(name, 0)
    reach_warnings = sorted([f"fault:{k}" for k, v in faults.items() if v == 0]
                            + [f"probe:{k}" for k, v in probes.items()
                               if v == 0])
    for w in reach_warnings:
        print(f"REACH-WARNING {prop} {w} was never reached in this run",
              flush=True)

    wall = time.monotonic() - t_start
    samples = []
    for k in sample_keys[:4]:
        r = results.get(k)
        if r and r.get("doc") is not None:
            samples.append({"key": k, "scenario": _jsonable(r["doc"])})
    if not samples:
        samples.append({"note": "no sample retained"})
    n_exec = len(results)
    evidence = {
        "property_id": prop, "tier": tier, "seed": seed,
        "level": "exploration",
        "coverage": {
            "evaluations": n_exec,
            "distinct_nontrivial": len(nontrivial_docs),
            "rule": engine.RULE,
            "samples": samples,
            "distinct_scenarios": len(all_docs),
            "scenarios_per_batch": per_batch,
            "operations_executed": ops,
            "events_logged": n_events,
            "runs_per_hour": int(n_exec / max(wall, 1e-9) * 3600),
            "simulated_time_covered": sim_time,
            "simulated_time_unit": getattr(engine, "SIM_TIME_UNIT", "n/a"),
            "fault_kinds_fired": dict(sorted(faults.items())),
            "reach_probes": dict(sorted(probes.items())),
            "reach_warnings": reach_warnings,
            "distinct_states": len(states),
            "distinct_states_measure": getattr(engine, "STATE_MEASURE", ""),
            "components": engine.COMPONENTS,
            "determinism_selftest": selftest,
            "lost_scenarios_recovered": lost_recovered,
            "scenarios_skipped_after_repeated_hangs":
                aborted["skipped"] if aborted else 0,
            "known_findings_hit": len(known_hits),
            "violations_reported": _jsonable(reported),
            "harness_errors": [h[1][-600:] for h in harness_errors[:5]],
            "warmup_s": round(t_warm, 2), "workers": workers,
        },
        "assumptions": engine.ASSUMPTIONS,
        "wall_s": round(wall, 2),
        "violations": len(reported),
    }
    core.write_evidence(prop, evidence)

    seen_known = set()
    for k, v in known_hits:
        entry = core.match_known(prop, v, known)
        ident = entry.get("id", entry.get("text"))
        if ident in seen_known:
            continue
        seen_known.add(ident)
        print(f"KNOWN-FINDING: property={prop} {entry.get('text')}",
              flush=True)
    for rep in reported:
        print(f"VIOLATION property={prop} replay={rep['replay']} "
              f"clause={rep['clause']} scenario={rep['key']} "
              f"reproducible={rep.get('reproducible', 'yes')} "
              f"count={rep['count_in_batch']} :: {rep['detail'][:300]}",
              flush=True)
    print(f"[{prop}] scenarios={n_exec} ops={ops} nontrivial_distinct="
          f"{len(nontrivial_docs)} states={len(states)} faults_fired="
          f"{sum(faults.values())} violations={len(reported)} "
          f"known={len(seen_known)} wall={wall:.1f}s", flush=True)
    if reported:
        return 1
    if harness_errors or selftest["mismatches"]:
        for k, h in harness_errors[:5]:
            print(f"HARNESS-ERROR {prop} {k}: {h[-1500:]}", flush=True)
        for m in selftest["mismatches"][:5]:
            print(f"HARNESS-ERROR {prop} determinism self-test: {m}",
                  flush=True)
        return 2
    return 0


def _key_order(key: str):
    b, _, k = key.partition(":")
    return (0 if b == "directed" else 1, b, int(k) if k.isdigit() else 0)


def replay(path: str) -> int:
    with open(path, encoding="utf-8") as f:
        rep = json.load(f)
    prop = rep["property"]
    engine = load_engine(prop)
    cap = float(getattr(engine, "HARD_CAP_S", 180.0))
    # (the warm-up executes directed scenarios: on a tree where those hang it
    # must not eat the time the replay itself needs)
    core.warmup_in_child(prop.lower(), timeout=min(600.0, max(180.0, 2 * cap)))
    iso = core.IsolatedExecutor(prop.lower(), hard_cap=cap)
    try:
        res = iso.execute(rep["scenario"])
    finally:
        iso.close()
    if res.get("harness_error"):
        print(f"HARNESS-ERROR {prop}: {res['harness_error']}")
        return 2
    v = res["violation"]
    same_digest = res["digest"] == rep.get("event_digest")
    if v is None:
        print(f"[{prop}] replay {path}: no violation (property holds on this "
              f"tree for the recorded scenario)")
        return 0
    print(f"VIOLATION property={prop} replay={path} clause={v['clause']} "
          f"same_event_digest={same_digest} :: {v['detail'][:600]}")
    return 1
