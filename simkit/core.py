"""simkit core: seeds, scenario execution, worker pool, shrinking, replay, evidence.

Everything here is standard library only.  Engines (simkit.engines.cXX) provide

    PROPERTY            the property id, e.g. "C14"
    RULE                text: how scenarios are generated, what makes one non-trivial
    COMPONENTS          {"real": [...], "stub": [...]}
    ASSUMPTIONS         list of strings
    FAULT_KINDS         names of every fault kind the engine can inject
    PROBES              names of every reach probe
    plan(tier)          -> list of batches: {"name", "n", "faults": bool, ...engine keys}
    directed(tier)      -> list of scenario documents that reach the probes by construction
    generate(rng, batch)-> scenario document (JSON-able, self-contained)
    execute(doc)        -> Result (see below); never raises for property reasons
    reductions(doc)     -> iterator over smaller candidate documents (for the shrinker)
    warmup()            -> optional, run once in the parent before forking workers

A Result is a dict:
    events      list of JSON-able records (the event log)
    violation   None | {"clause": str, "detail": str, ...witness keys...}
    faults      {kind: times fired}
    probes      {name: times hit}
    states      list of strings; hashed into the distinct-state measure
    nontrivial  bool
    sim_time    float (simulated time covered, engine specific unit)
    ops         int (operations executed against the system under simulation)
"""
from __future__ import annotations

import faulthandler
import hashlib
import json
import multiprocessing as mp
import os
import random
import signal
import subprocess
import sys
import time
import traceback
from typing import Any, Callable, Iterable, Iterator

VERIF = os.path.dirname(os.path.dirname(os.path.abspath(__file__)))
WORK = os.path.join(VERIF, ".work")
EVIDENCE_DIR = os.path.join(VERIF, "evidence")
REPLAY_DIR = os.path.join(VERIF, "replays")
KNOWN_FILE = os.path.join(VERIF, "known_findings.json")
DEFAULT_SEED = 20260927
PYTHON = "/venv/bin/python"
MAIN = os.path.join(VERIF, "simkit_main.py")


# --------------------------------------------------------------------------- seeds

def root_seed(prop: str, tier: str, seed: int) -> bytes:
    return hashlib.sha256(
        f"moptipyapps-verif|{prop}|{tier}|{seed}".encode()).digest()


def scenario_rng(root: bytes, batch: str, k: int) -> random.Random:
    h = hashlib.sha256(root + f"|{batch}|{k}".encode()).digest()
    return random.Random(int.from_bytes(h, "big"))


def canonical(obj: Any) -> str:
    return json.dumps(obj, sort_keys=True, separators=(",", ":"),
                      allow_nan=True, default=_json_default)


def _json_default(o: Any) -> Any:
    # numpy scalars etc. - never let them silently break canonical form
    if hasattr(o, "item"):
        return o.item()
    if isinstance(o, (set, frozenset)):
        return sorted(o)
    if isinstance(o, bytes):
        return o.hex()
    raise TypeError(f"not JSON-able: {type(o)}")


def digest(obj: Any) -> str:
    return hashlib.sha256(canonical(obj).encode()).hexdigest()


def short_hash(s: str) -> int:
    return int.from_bytes(hashlib.blake2b(s.encode(), digest_size=8).digest(),
                          "big")


def fhex(v: float) -> str:
    return float(v).hex()


def unhex(s: str | float | int) -> float:
    if isinstance(s, str):
        if s in ("nan", "inf", "-inf"):
            return float(s)
        return float.fromhex(s)
    return float(s)


# --------------------------------------------------------------------------- results

def new_result() -> dict:
    return {"events": [], "violation": None, "faults": {}, "probes": {},
            "states": [], "nontrivial": False, "sim_time": 0.0, "ops": 0}


def bump(d: dict, key: str, n: int = 1) -> None:
    d[key] = d.get(key, 0) + n


def violation(res: dict, clause: str, detail: str, **witness: Any) -> dict:
    """Record the first violation of a scenario (later ones are ignored)."""
    if res["violation"] is None:
        v = {"clause": clause, "detail": detail[:2000]}
        v.update(witness)
        res["violation"] = v
    return res


SEQ = "__sequence__"   # a history of scenarios executed in ONE process


def seq_reductions(reductions: Callable) -> Callable:
    """Reductions for documents that may be a sequence of scenarios (state
    that leaks from one scenario into the next inside a process): drop
    elements of the history; a single remaining scenario is reduced as usual."""
    def red(doc: dict):
        if SEQ not in doc:
            yield from reductions(doc)
            return
        seq = doc[SEQ]
        if len(seq) == 1:
            yield seq[0]
            return
        for cand in list_deletions(seq[:-1], 0):
            yield {SEQ: cand + [seq[-1]]}
        for cand in list_deletions(seq, 1):
            yield {SEQ: cand}
    return red


def safe_execute(engine: Any, doc: dict) -> dict:
    """Run engine.execute; a harness-side exception is a harness error."""
    if SEQ in doc:
        # scenarios one after the other in this process; the first violation
        # (or harness error) among them is the result of the history
        res = None
        for i, d in enumerate(doc[SEQ]):
            res = safe_execute(engine, d)
            if res["violation"] is not None or "harness_error" in res:
                if res["violation"] is not None:
                    res["violation"]["at_history_index"] = i
                break
        return res
    try:
        # "uninitialised" memory is deterministic garbage, never the leftovers
        # of the previous scenario (see Preempt.poison_small_blocks)
        Preempt.poison_small_blocks()
        res = engine.execute(doc)
    except BaseException as exc:  # noqa: BLE001
        if isinstance(exc, (KeyboardInterrupt, SystemExit)):
            raise
        res = new_result()
        res["harness_error"] = "".join(traceback.format_exception(exc))[-4000:]
    res["digest"] = digest(res["events"])
    return res


# --------------------------------------------------------------------------- pool

def die_with_parent() -> None:
    """Ask the kernel to kill this process when its parent goes away, so that
    a killed driver, replay or wrapper leaves no orphan spinning on a hung
    scenario (Linux prctl PR_SET_PDEATHSIG; a no-op where unavailable)."""
    try:
        import ctypes
        import signal
        ctypes.CDLL("libc.so.6", use_errno=True).prctl(1, int(signal.SIGKILL))
    except Exception:  # noqa: BLE001
        pass


def _worker(engine_name: str, conn, root: bytes, hard_cap: float) -> None:
    import importlib
    die_with_parent()
    faulthandler.enable()
    engine = importlib.import_module(f"simkit.engines.{engine_name}")
    import collections
    history: collections.deque = collections.deque(maxlen=48)
    sent_histories = 0
    while True:
        try:
            msg = conn.recv()
        except EOFError:
            return
        if msg is None:
            return
        kind, payload = msg
        out = []
        for item in payload:
            key, batch, k, doc, want_doc = item
            conn.send(("start", key))
            faulthandler.dump_traceback_later(hard_cap * 0.9, exit=False)
            if doc is None:
                doc = engine.generate(scenario_rng(root, batch["name"], k),
                                      batch)
            res = safe_execute(engine, doc)
            faulthandler.cancel_dump_traceback_later()
            bad = (res["violation"] is not None) or ("harness_error" in res)
            slim = {"key": key, "digest": res["digest"],
                    "violation": res["violation"],
                    "harness_error": res.get("harness_error"),
                    "faults": res["faults"], "probes": res["probes"],
                    "states": [short_hash(s) for s in res["states"]],
                    "nontrivial": res["nontrivial"],
                    "sim_time": res["sim_time"], "ops": res["ops"],
                    "n_events": len(res["events"]),
                    "doc_digest": digest(doc),
                    "doc": doc if (bad or want_doc) else None,
                    "events": res["events"] if (bad or want_doc == 2)
                    else None}
            if res["violation"] is not None and sent_histories < 4:
                # what this process executed before: needed if the violation
                # does not show when the scenario runs alone
                slim["history"] = list(history)
                sent_histories += 1
            history.append(doc)
            out.append(slim)
        conn.send(("done", out))


class Pool:
    """A fork-based worker pool that survives (and reports) hanging scenarios."""

    def __init__(self, engine_name: str, root: bytes, workers: int,
                 hard_cap: float = 180.0) -> None:
        self.engine_name = engine_name
        self.root = root
        self.n = max(1, workers)
        self.hard_cap = hard_cap
        self.ctx = mp.get_context("fork")
        self.procs: list = []
        for _ in range(self.n):
            self.procs.append(self._spawn())

    def _spawn(self):
        a, b = self.ctx.Pipe()
        p = self.ctx.Process(target=_worker, args=(
            self.engine_name, b, self.root, self.hard_cap), daemon=True)
        p.start()
        b.close()
        return {"p": p, "conn": a, "busy": None, "cur": None, "t0": 0.0}

    def run(self, items: list, chunk: int = 8,
            progress: Callable[[int, int], None] | None = None,
            max_lost: int = 6) -> dict:
        """items: list of (key, batch, k, doc|None, want_doc). Returns key -> slim.

        After max_lost scenarios hung or killed their worker, no further
        work is handed out (the batch is going to be reported as violated
        or broken anyway); results["__aborted__"] tells how many were skipped.
        """
        from multiprocessing.connection import wait
        queue = [items[i:i + chunk] for i in range(0, len(items), chunk)]
        queue.reverse()
        results: dict = {}
        pending = 0
        total = len(items)
        n_lost = 0
        while queue or pending:
            if n_lost >= max_lost and queue:
                skipped = sum(len(c) for c in queue)
                queue.clear()
                results["__aborted__"] = {"skipped": skipped}
            for w in self.procs:
                if w["busy"] is None and queue:
                    job = queue.pop()
                    w["busy"] = job
                    w["cur"] = None
                    w["t0"] = time.monotonic()
                    w["conn"].send(("run", job))
                    pending += 1
            ready = wait([w["conn"] for w in self.procs
                          if w["busy"] is not None], timeout=1.0)
            now = time.monotonic()
            for idx, w in enumerate(self.procs):
                if w["busy"] is None:
                    continue
                dead = False
                if w["conn"] in ready:
                    try:
                        while w["conn"].poll():
                            tag, val = w["conn"].recv()
                            if tag == "start":
                                w["cur"] = val
                                w["t0"] = now
                            else:
                                for slim in val:
                                    results[slim["key"]] = slim
                                w["busy"] = None
                                pending -= 1
                                break
                    except (EOFError, ConnectionResetError, OSError):
                        dead = True
                if w["busy"] is not None and (
                        dead or (now - w["t0"] > self.hard_cap)
                        or not w["p"].is_alive()):
                    # the scenario w["cur"] hangs or killed the interpreter
                    why = "hang" if (now - w["t0"] > self.hard_cap) \
                        else "worker-died"
                    try:
                        w["p"].kill()
                    except Exception:  # noqa: BLE001
                        pass
                    w["p"].join(5)
                    job = w["busy"]
                    cur = w["cur"]
                    rest = []
                    seen = cur is None
                    for it in job:
                        if it[0] in results:
                            continue
                        if cur is not None and it[0] == cur:
                            results[cur] = {"key": cur, "lost": why,
                                            "item": it}
                            seen = True
                        elif seen or cur is None:
                            rest.append(it)
                    if cur is None and rest:
                        # died before starting anything: blame the first
                        it = rest.pop(0)
                        results[it[0]] = {"key": it[0], "lost": why,
                                          "item": it}
                    n_lost += 1
                    if rest and n_lost < max_lost:
                        queue.append(rest)
                    pending -= 1
                    self.procs[idx] = self._spawn()
            if progress is not None:
                progress(len(results), total)
        return results

    def close(self) -> None:
        for w in self.procs:
            try:
                w["conn"].send(None)
            except Exception:  # noqa: BLE001
                pass
        for w in self.procs:
            w["p"].join(2)
            if w["p"].is_alive():
                w["p"].kill()


# --------------------------------------------------------------------------- shrinking

def list_deletions(lst: list, min_len: int = 0) -> Iterator[list]:
    """Candidates with chunks removed (big chunks first), ddmin style."""
    n = len(lst)
    size = n // 2
    while size >= 1:
        i = 0
        while i < n:
            cand = lst[:i] + lst[i + size:]
            if len(cand) >= min_len and len(cand) < n:
                yield cand
            i += size
        size //= 2


def int_shrinks(v: int, target: int = 0) -> Iterator[int]:
    if v == target:
        return
    yield target
    d = (v - target) // 2
    while d != 0:
        yield v - d
        d //= 2 if d > 0 else -2  # toward zero
        if abs(d) < 1:
            break
    if abs(v - target) > 1:
        yield v - (1 if v > target else -1)


class IsolatedExecutor:
    """Execute scenario documents in a sacrificial child process.

    A scenario that kills its interpreter (e.g. a kernel reading scribbled
    scratch state out of bounds) or hangs yields a violation record instead of
    taking the harness down.
    """

    def __init__(self, engine_name: str, hard_cap: float = 180.0) -> None:
        self.pool = Pool(engine_name, b"", 1, hard_cap=hard_cap)
        self.n = 0

    def execute(self, doc: dict) -> dict:
        self.n += 1
        key = f"iso:{self.n}"
        out = self.pool.run([(key, {"name": "iso"}, 0, doc, 2)], chunk=1)[key]
        if "lost" in out:
            clause = "no-termination" if out["lost"] == "hang" \
                else "interpreter-crash"
            return {"violation": {"clause": clause, "detail":
                                  f"scenario {out['lost']} in an isolated "
                                  "child process"},
                    "digest": "", "events": [], "harness_error": None}
        return {"violation": out["violation"], "digest": out["digest"],
                "events": out["events"] or [],
                "harness_error": out["harness_error"]}

    def close(self) -> None:
        self.pool.close()


def shrink(execute: Callable[[dict], dict], reductions: Callable, doc: dict,
           clause: str, budget_runs: int = 400,
           budget_s: float = 60.0) -> tuple[dict, dict, int]:
    """Greedy reduction keeping the same violation clause."""
    t0 = time.monotonic()
    runs = 0
    best = doc
    best_res = execute(best)
    improved = True
    while improved and runs < budget_runs \
            and time.monotonic() - t0 < budget_s:
        improved = False
        for cand in reductions(best):
            if runs >= budget_runs or time.monotonic() - t0 >= budget_s:
                break
            if canonical(cand) == canonical(best):
                continue
            runs += 1
            res = execute(cand)
            v = res.get("violation")
            if v is not None and v["clause"] == clause \
                    and not res.get("harness_error"):
                best, best_res = cand, res
                improved = True
                break
    return best, best_res, runs


def warmup_in_child(engine_name: str, timeout: float = 600.0) -> None:
    """Run engine.warmup() in a forked child (fills the numba disk cache)."""
    def _go():
        import importlib
        die_with_parent()
        eng = importlib.import_module(f"simkit.engines.{engine_name}")
        if hasattr(eng, "warmup"):
            eng.warmup()
    ctx = mp.get_context("fork")
    p = ctx.Process(target=_go, daemon=True)
    p.start()
    p.join(timeout)
    if p.is_alive():
        p.kill()
        p.join(5)


# --------------------------------------------------------------------------- known findings

def load_known() -> list:
    if not os.path.exists(KNOWN_FILE):
        return []
    with open(KNOWN_FILE, encoding="utf-8") as f:
        data = json.load(f)
    return data.get("findings", [])


def match_known(prop: str, viol: dict, known: list) -> dict | None:
    for entry in known:
        if entry.get("property") != prop or entry.get("status") != "known":
            continue
        m = entry.get("match", {})
        if all(viol.get(k) == v for k, v in m.items()):
            return entry
    return None


# --------------------------------------------------------------------------- replay files

def write_replay(prop: str, seed: int, tier: str, tag: str, doc: dict,
                 res: dict, original_doc: dict | None, runs: int) -> str:
    os.makedirs(REPLAY_DIR, exist_ok=True)
    name = f"{prop}-{seed}-{tag}.json"
    path = os.path.join(REPLAY_DIR, name)
    with open(path, "w", encoding="utf-8") as f:
        json.dump({"property": prop, "seed": seed, "tier": tier,
                   "scenario": doc, "violation": res["violation"],
                   "event_digest": res["digest"], "events": res["events"],
                   "shrink_runs": runs,
                   "original_scenario_digest":
                       digest(original_doc) if original_doc else None},
                  f, indent=1, default=_json_default, allow_nan=True)
    return path


def replay_in_fresh_interpreter(path: str, timeout: float = 300.0,
                                hashseed: str = "0") -> tuple[int, str]:
    env = dict(os.environ)
    env["PYTHONHASHSEED"] = hashseed
    try:
        p = subprocess.run([PYTHON, MAIN, "replay", path], env=env,
                           capture_output=True, text=True, timeout=timeout)
        return p.returncode, p.stdout + p.stderr
    except subprocess.TimeoutExpired:
        return 124, "replay timed out"


# --------------------------------------------------------------------------- evidence

def write_evidence(prop: str, data: dict) -> str:
    os.makedirs(EVIDENCE_DIR, exist_ok=True)
    path = os.path.join(EVIDENCE_DIR, f"{prop}.json")
    tmp = path + ".tmp"
    with open(tmp, "w", encoding="utf-8") as f:
        json.dump(data, f, indent=1, default=_json_default, allow_nan=True)
    os.replace(tmp, path)
    return path


def confirm_on_legal_history(doc: dict, res: dict, execute_full, private_ops):
    """Scribbling over an object's *private* arrays is a search accelerator,
    not something a caller can do: a violation found in a scenario with such
    operations only counts if it is still there after they are removed (a
    correct implementation may legitimately keep state there, e.g. a cache).
    Otherwise the scenario is recorded as held, with a probe."""
    def has(d):
        return any(o.get("op") in private_ops for o in d.get("ops", [])) or (
            d.get("twin") is not None and has(d["twin"]))

    def strip(d):
        out = {**d, "ops": [o for o in d.get("ops", [])
                            if o.get("op") not in private_ops]}
        if d.get("twin") is not None:
            out["twin"] = strip(d["twin"])
        return out
    if res.get("violation") is None or not has(doc):
        return res
    legal = execute_full(strip(doc))
    if legal.get("violation") is None:
        res["violation"] = None
        bump(res["probes"], "alarm_needs_impossible_private_state")
        res["events"].append(["held-on-legal-history"])
    else:
        res["violation"] = legal["violation"]
        res["violation"]["confirmed_without_private_scribbles"] = True
        res["events"].append(["confirmed-on-legal-history"])
    return res


# --------------------------------------------------------------------------- caller threads

class Preempt:
    """Caller threads under a scheduler that decides every switch.

    Bodies run in real threads, but only the one holding the baton runs.
    Pre-emption points are line events (sys.settrace) in Python code of the
    repository - the first LINES line events of every function invocation -
    identified as (function name, invocation index in that thread, line index).
    `profile` runs a body alone and returns its result together with the
    table of points it passed; `run` runs several bodies at once and switches
    to the next thread whenever the running thread reaches one of ITS points.
    Compiled (numba) code produces no events and is never interrupted: what
    is explored are the interleavings of the Python-level steps.
    """

    LINES = 48

    def __init__(self, roots: tuple) -> None:
        self.roots = tuple(roots)

    def _is_repo(self, filename: str) -> bool:
        return any(r in filename for r in self.roots)

    def _tracer(self, on_point: Callable, table: dict | None):
        counters: dict = {}

        def global_trace(frame, event, arg):
            if event != "call" or not self._is_repo(frame.f_code.co_filename):
                return None
            if not frame.f_code.co_flags & 0x1:
                # module and class bodies run on first import only: whether
                # that happens inside the traced region depends on what the
                # process imported before, so they are never points
                return None
            func = frame.f_code.co_name
            inv = counters.get(func, 0)
            counters[func] = inv + 1
            st = {"line": 0}
            if table is not None:
                table.setdefault(func, []).append(0)

            def local_trace(frame2, event2, arg2):
                if event2 == "line" and st["line"] < self.LINES:
                    st["line"] += 1
                    if table is not None:
                        table[func][inv] = st["line"]
                    on_point((func, inv, st["line"]))
                return local_trace
            return local_trace
        return global_trace

    def profile(self, body: Callable) -> tuple:
        import sys
        table: dict = {}
        old = sys.gettrace()
        sys.settrace(self._tracer(lambda p: None, table))
        try:
            out = body()
        finally:
            sys.settrace(old)
        return out, table

    @staticmethod
    def pick_points(table: dict, picks: list) -> set:
        """Map seeded numbers in [0,1)^3 to points of a profile: a function
        first (so that rarely called functions are hit as often as hot
        ones), then one of its invocations, then a line of it."""
        pts = set()
        funcs = sorted(table)
        if not funcs:
            return pts
        for u, v, w in picks:
            f = funcs[min(len(funcs) - 1, int(u * len(funcs)))]
            invs = table[f]
            i = min(len(invs) - 1, int(v * len(invs)))
            n = max(1, invs[i])
            pts.add((f, i, 1 + min(n - 1, int(w * n))))
        return pts

    @staticmethod
    def poison_small_blocks() -> None:
        """numpy hands recently freed small blocks out again, so that
        'uninitialised' memory (np.empty) often still holds what the same
        computation wrote a moment ago - e.g. during the profile run - and a
        half-filled table looks complete. Fill those free blocks with a
        fixed garbage pattern first."""
        try:
            import numpy as np
            for nbytes in range(8, 1025, 8):
                blocks = [np.full(nbytes // 8, -7777777, dtype=np.int64)
                          for _ in range(8)]
                del blocks
        except Exception:  # noqa: BLE001
            pass

    def run(self, bodies: list, points: list, cap: float = 120.0) -> tuple:
        """Returns (results, number of switches); an exception raised by a
        body is returned in its place."""
        import sys
        import threading
        self.poison_small_blocks()
        n = len(bodies)
        cv = threading.Condition()
        state = {"turn": 0, "alive": set(range(n)), "switches": 0}
        out: list = [None] * n

        def wait_for(me: int) -> None:
            while state["turn"] != me:
                if not cv.wait(timeout=cap):
                    raise RuntimeError("scheduler lost the baton: harness bug")

        def hand_over(me: int) -> None:
            others = sorted(state["alive"] - {me})
            if others:
                nxt = next((o for o in others if o > me), others[0])
                state["switches"] += 1
                state["turn"] = nxt
                cv.notify_all()
                wait_for(me)

        def runner(i: int) -> None:
            def on_point(p):
                if p in points[i]:
                    with cv:
                        hand_over(i)
            try:
                with cv:
                    wait_for(i)
                sys.settrace(self._tracer(on_point, None))
                try:
                    out[i] = bodies[i]()
                finally:
                    sys.settrace(None)
            except BaseException as exc:  # noqa: BLE001
                out[i] = exc
            finally:
                with cv:
                    state["alive"].discard(i)
                    if state["alive"] and state["turn"] == i:
                        state["turn"] = min(state["alive"])
                    cv.notify_all()
        threads = [threading.Thread(target=runner, args=(i, ), daemon=True)
                   for i in range(n)]
        for t in threads:
            t.start()
        for t in threads:
            t.join(cap)
            if t.is_alive():
                raise RuntimeError("a scheduled thread did not finish")
        return out, state["switches"]
