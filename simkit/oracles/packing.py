"""Independent oracles for 2D bin packing: feasibility, BL reference model, objectives.

Standard library only (plain Python integers); never imports moptipyapps.
A packing is a list of rows [item_id, bin_id, left, bottom, right, top].
An instance is (W, H, items) with items = [[w, h, multiplicity], ...] (ids 1-based).
"""
from __future__ import annotations

from typing import Iterable


# ------------------------------------------------------------------ feasibility

def infeasibility(W: int, H: int, items: list, rows: list,
                  n_bins) -> list[str]:
    """Return the list of violated clauses (empty = feasible).

    Clause names: shape, id, bin-range, coords, outside, size, overlap,
    multiplicity, bin-gap, n_bins
    """
    bad: list[str] = []
    n_items = sum(int(it[2]) for it in items)
    if len(rows) != n_items or any(len(r) != 6 for r in rows):
        return ["shape"]
    counts: dict[int, int] = {}
    bins: dict[int, list] = {}
    for r in rows:
        iid, b, lft, bot, rgt, top = (int(v) for v in r)
        ok_id = 1 <= iid <= len(items)
        if not ok_id:
            bad.append("id")
        else:
            counts[iid] = counts.get(iid, 0) + 1
        if b < 1 or b > n_items:
            bad.append("bin-range")
        bins.setdefault(b, []).append((lft, bot, rgt, top))
        if lft >= rgt or bot >= top:
            bad.append("coords")
        if lft < 0 or bot < 0 or rgt > W or top > H:
            bad.append("outside")
        if ok_id:
            w, h = int(items[iid - 1][0]), int(items[iid - 1][1])
            rw, rh = rgt - lft, top - bot
            if not ((rw == w and rh == h) or (rw == h and rh == w)):
                bad.append("size")
    for iid in range(1, len(items) + 1):
        if counts.get(iid, 0) != int(items[iid - 1][2]):
            bad.append("multiplicity")
            break
    for b, rects in bins.items():
        hit = False
        for i in range(len(rects)):
            l1, b1, r1, t1 = rects[i]
            for j in range(i + 1, len(rects)):
                l2, b2, r2, t2 = rects[j]
                if l2 < r1 and r2 > l1 and b2 < t1 and t2 > b1:
                    hit = True
                    break
            if hit:
                break
        if hit:
            bad.append("overlap")
            break
    k = len(bins)
    if sorted(bins) != list(range(1, k + 1)):
        bad.append("bin-gap")
    if type(n_bins) is not int or n_bins != k:  # noqa: E721
        bad.append("n_bins")
    # unique, stable order
    seen = []
    for c in bad:
        if c not in seen:
            seen.append(c)
    return seen


# ------------------------------------------------------------------ BL reference model

class BLStats:
    """Reach-probe counters filled by the reference model."""

    __slots__ = ("forced_rotation", "first_fit_earlier", "new_bin_after_many",
                 "left_stop_support", "left_stop_blocker", "alternations3",
                 "new_bin")

    def __init__(self) -> None:
        self.forced_rotation = 0
        self.first_fit_earlier = 0
        self.new_bin_after_many = 0
        self.left_stop_support = 0
        self.left_stop_blocker = 0
        self.alternations3 = 0
        self.new_bin = 0


def _drop(rects: list, W: int, H: int, w: int, h: int, st: BLStats | None):
    """Drop a w x h box into a bin holding rects; return (l, b, r, t)."""
    lft, bot, rgt, top = W - w, H, W, H + h
    alternations = 0
    last = ""
    while True:
        # ---- move down as far as possible
        md = bot
        for (ol, ob, orr, ot) in rects:
            if orr > lft and ol < rgt and ob < top:
                d = bot - ot
                if d < md:
                    md = d
        if md > 0:
            bot -= md
            top -= md
            if last != "d":
                alternations += 1
                last = "d"
            continue
        # ---- else move left
        ml = lft
        why = "wall"
        for (ol, ob, orr, ot) in rects:
            if ol >= rgt:
                continue
            if orr > lft and ol < rgt:
                if ot == bot:
                    d = rgt - ol
                    if d < ml:
                        ml = d
                        why = "support"
            elif top > ob and bot < ot:
                d = lft - orr
                if d < ml:
                    ml = d
                    why = "blocker"
        if ml > 0:
            lft -= ml
            rgt -= ml
            if st is not None:
                if why == "support":
                    st.left_stop_support += 1
                elif why == "blocker":
                    st.left_stop_blocker += 1
            if last != "l":
                alternations += 1
                last = "l"
            continue
        break
    if st is not None and alternations >= 3:
        st.alternations3 += 1
    return lft, bot, rgt, top


def bl_decode(W: int, H: int, items: list, x: Iterable[int], encoder: int,
              st: BLStats | None = None) -> tuple[list, int]:
    """Reference model of both improved-bottom-left encodings."""
    rows: list = []
    bins: list[list] = [[]]
    for item in x:
        item = int(item)
        if item < 0:
            iid = -item
            w, h = int(items[iid - 1][1]), int(items[iid - 1][0])
        else:
            iid = item
            w, h = int(items[iid - 1][0]), int(items[iid - 1][1])
        if w > W or h > H:
            w, h = h, w
            if st is not None:
                st.forced_rotation += 1
        cand = range(len(bins) - 1, len(bins)) if encoder == 1 \
            else range(len(bins))
        placed = False
        tried = 0
        for bi in cand:
            tried += 1
            lft, bot, rgt, top = _drop(bins[bi], W, H, w, h, st)
            if rgt <= W and top <= H:
                bins[bi].append((lft, bot, rgt, top))
                rows.append([iid, bi + 1, lft, bot, rgt, top])
                placed = True
                if st is not None and bi < len(bins) - 1:
                    st.first_fit_earlier += 1
                break
        if not placed:
            bins.append([(0, 0, w, h)])
            rows.append([iid, len(bins), 0, 0, w, h])
            if st is not None:
                st.new_bin += 1
                if tried >= 2:
                    st.new_bin_after_many += 1
    return rows, len(bins)


# ------------------------------------------------------------------ objectives

def n_bins_of(rows: list) -> int:
    return max(int(r[1]) for r in rows)


def obj_bin_count(W, H, items, rows) -> int:
    return n_bins_of(rows)


def _skyline_area(rects: list, W: int) -> int:
    """Area under the skyline: sum over unit columns of the highest top edge."""
    # sweep over breakpoints instead of unit columns (bins may be wide)
    xs = sorted({0, W} | {r[0] for r in rects} | {r[2] for r in rects})
    area = 0
    for a, b in zip(xs, xs[1:]):
        if b <= a:
            continue
        top = 0
        for (lft, bot, rgt, t) in rects:
            if lft < b and rgt > a and t > top:
                top = t
        area += (b - a) * top
    return area


def _by_bin(rows: list) -> dict:
    d: dict[int, list] = {}
    for r in rows:
        d.setdefault(int(r[1]), []).append(
            (int(r[2]), int(r[3]), int(r[4]), int(r[5])))
    return d


def obj_last_empty(W, H, items, rows) -> int:
    """(bins-1)*n_items + number of items in the last bin."""
    n_items = len(rows)
    k = n_bins_of(rows)
    return (k - 1) * n_items + len(_by_bin(rows)[k])


def obj_empty(W, H, items, rows) -> int:
    """(bins-1)*n_items + number of items in the bin with the fewest items."""
    n_items = len(rows)
    k = n_bins_of(rows)
    return (k - 1) * n_items + min(len(v) for v in _by_bin(rows).values())


def _area(rects: list) -> int:
    return sum((r[2] - r[0]) * (r[3] - r[1]) for r in rects)


def obj_last_small(W, H, items, rows) -> int:
    """(bins-1)*bin_area + covered area in the last bin."""
    k = n_bins_of(rows)
    return (k - 1) * W * H + _area(_by_bin(rows)[k])


def obj_small(W, H, items, rows) -> int:
    """(bins-1)*bin_area + covered area of the bin with the smallest area."""
    k = n_bins_of(rows)
    return (k - 1) * W * H + min(_area(v) for v in _by_bin(rows).values())


def obj_last_skyline(W, H, items, rows) -> int:
    """(bins-1)*bin_area + area under the skyline of the last bin."""
    k = n_bins_of(rows)
    return (k - 1) * W * H + _skyline_area(_by_bin(rows)[k], W)


def obj_lowest_skyline(W, H, items, rows) -> int:
    """(bins-1)*bin_area + smallest area under the skyline of any bin."""
    k = n_bins_of(rows)
    return (k - 1) * W * H + min(
        _skyline_area(v, W) for v in _by_bin(rows).values())


OBJECTIVES = {
    "binCount": obj_bin_count,
    "binCountAndLastEmpty": obj_last_empty,
    "binCountAndEmpty": obj_empty,
    "binCountAndLastSmall": obj_last_small,
    "binCountAndSmall": obj_small,
    "binCountAndLastSkyline": obj_last_skyline,
    "binCountAndLowestSkyline": obj_lowest_skyline,
}
