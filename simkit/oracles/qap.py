"""Independent QAP objective (Python integers)."""


def objective(flows: list, dists: list, p: list) -> int:
    n = len(p)
    return sum(int(flows[i][j]) * int(dists[int(p[i])][int(p[j])])
               for i in range(n) for j in range(n))
