"""Independent TSP oracles over Python integers. Never imports moptipyapps."""
from __future__ import annotations


def is_permutation(x, n: int) -> bool:
    xs = [int(v) for v in x]
    return len(xs) == n and sorted(xs) == list(range(n))


def tour_length(matrix: list, x) -> int:
    xs = [int(v) for v in x]
    total = 0
    last = xs[-1]
    for c in xs:
        total += int(matrix[last][c])
        last = c
    return total


def bounds(matrix: list) -> tuple[int, int]:
    """(sum of nearest-neighbour distances, sum of farthest) per row."""
    n = len(matrix)
    lb = ub = 0
    for i in range(n):
        row = [int(matrix[i][j]) for j in range(n) if j != i]
        lb += min(row)
        ub += max(row)
    return lb, ub


def reversed_segment(tour: list, i: int, j: int) -> list:
    """The tour with positions i..j (inclusive) reversed."""
    return tour[:i] + tour[i:j + 1][::-1] + tour[j + 1:]
