"""Independent formulas for run_ode results (numpy + math only, no moptipyapps)."""
from __future__ import annotations

import math

import numpy as np


def j_reference(ode: np.ndarray, state_dim: int, use_state_dims: int,
                gamma: float) -> float:
    """Documented figure of merit.

    J = [ sum_{i=0}^{m-2} dt_i * ( gamma * sum_c c_i^2 + [i>=1] sum_{k<use} s_ik^2 ) ] / T
    entries with |v| >= 1e100 contribute 1e100; a single (failure) row gives 1e200.
    """
    m = ode.shape[0]
    if m <= 1:
        return 1e200
    if use_state_dims <= 0:
        use_state_dims = state_dim
    ncol = ode.shape[1]
    terms = []
    for i in range(m - 1):
        dt = float(ode[i + 1, -1]) - float(ode[i, -1])
        for c in range(state_dim, ncol - 1):
            v = float(ode[i, c])
            terms.append((v * v) * (dt * gamma)
                         if -1e100 < v < 1e100 else 1e100)
        if i >= 1:
            for k in range(use_state_dims):
                v = float(ode[i, k])
                terms.append((v * v) * dt if -1e100 < v < 1e100 else 1e100)
    return math.fsum(terms) / float(ode[-1, -1])


def diff_reference(ode: np.ndarray, state_dim: int):
    m = ode.shape[0]
    sc = ode[0:m - 1, 0:ode.shape[1] - 1].copy()
    df = np.empty((m - 1, state_dim))
    for i in range(m - 1):
        dt = float(ode[i + 1, -1]) - float(ode[i, -1])
        for k in range(state_dim):
            df[i, k] = (float(ode[i + 1, k]) - float(ode[i, k])) / dt
    return sc, df


def rel_close(a: float, b: float, rel: float) -> bool:
    if a == b:
        return True
    if not (math.isfinite(a) and math.isfinite(b)):
        return False
    return abs(a - b) <= rel * max(abs(a), abs(b), 1e-300)


def expm(M: np.ndarray) -> np.ndarray:
    """Matrix exponential by scaling and squaring with a Taylor series."""
    M = np.asarray(M, dtype=float)
    norm = np.linalg.norm(M, 1)
    s = max(0, int(math.ceil(math.log2(norm))) + 4) if norm > 0 else 0
    A = M / (2.0 ** s)
    n = M.shape[0]
    E = np.eye(n)
    term = np.eye(n)
    for k in range(1, 30):
        term = term @ A / k
        E = E + term
    for _ in range(s):
        E = E @ E
    return E
