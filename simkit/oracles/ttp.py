"""Independent TTP oracles for mutually consistent game plans (stdlib only).

A plan is a list of days, each a list of n entries: 0 = no game, +k = home
game against team k, -k = away game at team k (teams are 1-based).
"""
from __future__ import annotations


def decode_games(x: list, n: int, days: int) -> list:
    """Earliest-slot decoding of a game permutation (documented rule)."""
    plan = [[0] * n for _ in range(days)]
    for game in x:
        game = int(game)
        home = (game // (n - 1)) % n
        away = game % (n - 1)
        if away >= home:
            away += 1
        for d in range(days):
            if plan[d][home] == 0 and plan[d][away] == 0:
                plan[d][home] = away + 1
                plan[d][away] = -(home + 1)
                break
    return plan


def shape_problems(plan: list, n: int, days: int) -> list:
    bad = []
    if len(plan) != days or any(len(r) != n for r in plan):
        return ["shape"]
    for d, row in enumerate(plan):
        for t, e in enumerate(row):
            if not -n <= e <= n:
                bad.append("range")
            if e != 0:
                o = abs(e) - 1
                if o == t:
                    bad.append("self-play")
                elif e > 0 and row[o] != -(t + 1):
                    bad.append("inconsistent")
                elif e < 0 and row[o] != (t + 1):
                    bad.append("inconsistent")
    return sorted(set(bad))


def errors_consistent(plan: list, n: int, rounds: int, hs_min: int,
                      hs_max: int, as_min: int, as_max: int, sep_min: int,
                      sep_max: int) -> int:
    """Documented error count for a mutually consistent plan."""
    days = len(plan)
    errors = 0
    # byes and streaks, team by team, as run-length segments
    for t in range(n):
        col = [plan[d][t] for d in range(days)]
        kind = None           # "H" / "A" / None
        length = 0
        for e in col:
            cur = None if e == 0 else ("H" if e > 0 else "A")
            if cur == kind and cur is not None:
                length += 1
                if length > (hs_max if cur == "H" else as_max):
                    errors += 1
                continue
            # the running streak (if any) ends here
            if kind is not None:
                lo = hs_min if kind == "H" else as_min
                if length < lo:
                    errors += lo - length
            if cur is None:
                errors += 1           # a day without a game
                kind, length = None, 0
            else:
                kind, length = cur, 1
    # separation of repeated pairings, once per game
    last: dict = {}
    for d in range(days):
        for t in range(n):
            e = plan[d][t]
            if e > 0:                  # look at each game from the home side
                pair = (min(t, e - 1), max(t, e - 1))
                if pair in last:
                    diff = d - last[pair] - 1
                    if diff < sep_min:
                        errors += sep_min - diff
                    elif diff > sep_max:
                        errors += diff - sep_max
                last[pair] = d
    # pairing counts and home/away balance
    home: dict = {}
    for d in range(days):
        for t in range(n):
            e = plan[d][t]
            if e > 0:
                home[(t, e - 1)] = home.get((t, e - 1), 0) + 1
    per = days // (n - 1)
    for i in range(n):
        for j in range(i):
            ij, ji = home.get((i, j), 0), home.get((j, i), 0)
            errors += abs(ij + ji - per)
            if abs(ij - ji) > 1:
                errors += abs(ij - ji) - 1
    return errors


def plan_length(plan: list, dist: list, bye_penalty: int) -> int:
    """Tournament travel model: start at home, travel to venues, return."""
    n = len(plan[0])
    total = 0
    for t in range(n):
        loc = t
        for row in plan:
            e = row[t]
            if e == 0:
                total += bye_penalty
                continue
            dest = t if e > 0 else (-e) - 1
            total += int(dist[loc][dest])
            loc = dest
        total += int(dist[loc][t])
    return total
