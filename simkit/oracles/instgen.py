"""Position-tracking version of the documented instance-cutting procedure.

Produces, for a vector x, a *layout* (rectangles with bin and position) whose
multiset of item sizes can be compared with the decoder's output. The layout is
a witness: its feasibility is judged by the independent packing predicate, so
nothing here has to be trusted - a wrong cutter only yields 'undecided'.
Standard library only.
"""
from __future__ import annotations


class CutStats:
    __slots__ = ("slack_pairs_used", "slack_refused_area", "direction_switch",
                 "slack_cuts", "neighbour_tried", "slack_skipped")

    def __init__(self) -> None:
        self.slack_pairs_used = 0
        self.slack_refused_area = 0
        self.direction_switch = 0
        self.slack_cuts = 0
        self.neighbour_tried = 0
        self.slack_skipped = 0


def _idx(n: int, v: float) -> int:
    return ((int(n * v) % n) + n) % n


def cut_layout(W: int, H: int, min_bins: int, n_items: int, x: list,
               budget_against_remaining: bool, st: CutStats | None = None):
    """Return list of [bin, left, bottom, width, height] (sizes as cut)."""
    items = [[b + 1, 0, 0, W, H] for b in range(min_bins)]
    xi = 0
    for cur_n in range(min_bins, n_items):
        selector = float(x[xi])
        cutter = float(x[xi + 1])
        xi += 2
        sel = _idx(cur_n, selector)
        orig = sel
        sdir = -1 if selector < 0.0 else 1
        dim = 1 if cutter >= 0.0 else 0      # 1: cut the height, 0: the width
        guard = 0
        while True:
            it = items[sel]
            size = it[3 + dim]
            mod = size - 1
            if mod > 0:
                pos = (((int(mod * cutter) % mod) + mod) % mod) + 1
                if 0 < pos < size:
                    new = list(it)
                    it[3 + dim] = pos
                    new[1 + dim] = it[1 + dim] + pos
                    new[3 + dim] = size - pos
                    items.append(new)
                    break
            sel = (((sel + sdir) % cur_n) + cur_n) % cur_n
            if st is not None:
                st.neighbour_tried += 1
            if sel == orig:
                dim = 1 - dim
                if st is not None:
                    st.direction_switch += 1
                guard += 1
                if guard > 3:
                    raise ValueError("no item can be cut in any direction")
    bin_area = W * H
    current = min_bins * bin_area
    min_area = current - bin_area + 1
    cur_n = len(items)
    while xi + 1 < len(x) and current > min_area:
        selector = float(x[xi])
        cutter = float(x[xi + 1])
        xi += 2
        if st is not None:
            st.slack_pairs_used += 1
        sel = _idx(cur_n, selector)
        orig = sel
        sdir = -1 if selector < 0.0 else 1
        dim = 1 if cutter >= 0.0 else 0
        step = 0
        done = False
        while step < 2:
            it = items[sel]
            size = it[3 + dim]
            other = it[4 - dim]
            by_area = (current - min_area) // other
            mod = min(by_area, size) - 1
            if mod > 0:
                pos = (((int(mod * cutter) % mod) + mod) % mod) + 1
                if 0 < pos < size:
                    it[3 + dim] = size - pos
                    if budget_against_remaining:
                        current -= pos * other
                    if st is not None:
                        st.slack_cuts += 1
                    done = True
                    break
            elif st is not None and by_area < size:
                st.slack_refused_area += 1
            sel = (((sel + sdir) % cur_n) + cur_n) % cur_n
            if sel == orig:
                dim = 1 - dim
                step += 1
        if not done and st is not None:
            st.slack_skipped += 1
    return items


def multiset(sizes) -> list:
    """Canonical multiset of (w, h) pairs (orientation kept)."""
    return sorted((int(w), int(h)) for w, h in sizes)


def instance_multiset(items: list) -> list:
    out = []
    for w, h, m in items:
        out.extend([(int(w), int(h))] * int(m))
    return sorted(out)
